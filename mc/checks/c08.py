"""C08 - stored values and column values come back unchanged for the right
document.

E1, two levels, both exhaustive inside their bound:

(1) column level: every shipped column type is driven directly through the
    public ``Column.writer()/reader()`` API (``add`` rows in ascending order,
    ``finish(doccount)``), on three file back-ends (RAM, mmap'd file, plain
    file) and two base positions: every assignment of {absent, edge values}
    to N<=3 (thorough 4) rows, row counts 255/256/257 under 12 sparse row
    patterns and two value schemes, RefBytesColumn around 65535 distinct
    values, VarBytesColumn with the offsets array forced on
    (``write_offsets_cutoff`` 0/1/2) and every sequence of value sizes around
    the type-code thresholds (255/256, 2^15, 2^16, one 70 KB value).
    Oracle: a Python list of the supplied values with the documented default
    in the holes; read through ``reader[i]``, ``iter(reader)``,
    ``reader.load()[i]``.

(2) index level: families of field configurations (every field type that
    accepts stored=/sortable=, STORED with arbitrary picklables, the
    ``_stored_<f>`` override, COLUMN(<every column type>)) x a value rotation
    x every presence pattern over D=4 documents x every composition of the 4
    documents into segments (plain / optimised / merged by the last commit /
    with a deleted document) x storage (RAM, file mmap, file without mmap,
    copy_to_ram, compound / loose segment files).
    Oracle: the supplied value for that key and no other, absent => absent
    from the stored dict / the column default; ``Hit[field]`` fallback equals
    the column value; per-segment and whole-index column readers agree.
"""
import datetime
import itertools
import random
import struct
import warnings
from decimal import Decimal

from mc import core, corpus

PID = "C08"
LEVEL = "exploration"

D = 4

# --------------------------------------------------------------------------
# helpers


def whoosh_frame(e):
    """file:qualified function of the innermost whoosh frame of e's traceback."""
    tb = e.__traceback__
    last = anyl = None
    while tb is not None:
        code = tb.tb_frame.f_code
        anyl = code
        if "/whoosh/" in code.co_filename:
            last = code
        tb = tb.tb_next
    code = last or anyl
    if code is None:
        return "?"
    return "%s:%s" % (code.co_filename.split("/")[-1], getattr(code, "co_qualname", code.co_name))


def exc_kind(e):
    return "exc:%s@%s" % (type(e).__name__, whoosh_frame(e))


def same(a, b):
    """Deep, type-aware equality; NaN equals NaN; Decimals compare
    numerically; -0.0 == 0.0 (IEEE equality)."""
    if isinstance(a, bool) or isinstance(b, bool):
        return isinstance(a, bool) and isinstance(b, bool) and a == b
    if isinstance(a, (int, float)) and isinstance(b, (int, float)):
        return a == b or (a != a and b != b)
    if isinstance(a, Decimal) and isinstance(b, Decimal):
        return a == b
    if type(a) is not type(b):
        return False
    if isinstance(a, (list, tuple)):
        return len(a) == len(b) and all(same(x, y) for x, y in zip(a, b))
    if isinstance(a, dict):
        if set(a.keys()) != set(b.keys()):
            return False
        return all(same(a[k], b[k]) for k in a)
    return a == b


def short(v, n=60):
    r = repr(v)
    if len(r) > n:
        r = r[:n - 12] + ("...<len %d>" % len(v) if hasattr(v, "__len__") else "...")
    return r


# --------------------------------------------------------------------------
# observation-only probe: was the offsets array of a VarBytes writer replaced
# (GrowableArray retyped) by the fill() that finish() runs after it captured
# the array?  Used only to name the root cause in violation signatures; it
# does not change behaviour and switches itself off if the internals move.

PROBE = []
_probe_installed = False


def install_probe():
    global _probe_installed
    if _probe_installed:
        return
    _probe_installed = True
    try:
        from whoosh import columns
        W = columns.VarBytesColumn.Writer
        orig = W.finish

        def finish(self, doccount):
            try:
                before = self._offsets.array
                written = self.allow_offsets and doccount > self.cutoff
            except Exception:
                before = written = None
            orig(self, doccount)
            try:
                if written and before is not None and self._offsets.array is not before:
                    PROBE.append(doccount)
            except Exception:
                pass
        finish.__qualname__ = orig.__qualname__
        W.finish = finish
    except Exception:
        pass


FINISH_SIG = "VarBytesColumn.Writer.finish|offsets-array-retyped-by-final-fill"


def uses_offsets(spec):
    if spec[0] == "pickle":
        return uses_offsets(spec[1]["child"])
    return spec[0] == "varbytes" and spec[1].get("allow_offsets", True) and "cutoff" in spec[1]


# --------------------------------------------------------------------------
# (1) column level

_BASE = bytes(range(1, 256)) * 300      # 76 500 bytes, no NUL-run structure


def sized(z, row):
    """A value of exactly z bytes that differs between rows."""
    return _BASE[row + 1: row + 1 + z]


def _b(s):
    return s.encode("latin1")


# name -> (spec, value kind, documented default)
def _colspecs():
    S = {}
    S["var"] = (["varbytes", {}], "bytes", b"")
    S["var_off0"] = (["varbytes", {"cutoff": 0}], "bytes", b"")
    S["var_off1"] = (["varbytes", {"cutoff": 1}], "bytes", b"")
    S["var_off2"] = (["varbytes", {"cutoff": 2}], "bytes", b"")
    S["var_nooff"] = (["varbytes", {"cutoff": 0, "allow_offsets": False}], "bytes", b"")
    S["fixed3"] = (["fixed", {"len": 3}], "fixed3", b"\x00\x00\x00")
    S["fixed3_d"] = (["fixed", {"len": 3, "default": "zzz"}], "fixed3", b"zzz")
    S["ref"] = (["ref", {}], "bytes", b"")
    S["ref_d"] = (["ref", {"default": "dflt"}], "bytes", b"dflt")
    S["ref_f3"] = (["ref", {"fixedlen": 3}], "fixed3", b"\x00\x00\x00")
    S["ref_f3_d"] = (["ref", {"fixedlen": 3, "default": "zzz"}], "fixed3", b"zzz")
    for tc in "bBhHiIqQfd":
        S["num_" + tc] = (["num", {"tc": tc}], "num:" + tc, 0)
    S["num_i_d"] = (["num", {"tc": "i", "default": -1}], "num:i", -1)
    S["num_B_d"] = (["num", {"tc": "B", "default": 255}], "num:B", 255)
    S["num_d_d"] = (["num", {"tc": "d", "default": 1.5}], "num:d", 1.5)
    S["bit"] = (["bit", {}], "bool", False)
    S["bit_raw"] = (["bit", {"compress_at": 0}], "bool", False)
    S["comp"] = (["comp", {}], "bytes", b"")
    S["struct"] = (["struct", {"spec": "<ih", "default": [0, 0]}], "struct", (0, 0))
    S["struct_d"] = (["struct", {"spec": "<ih", "default": [7, -7]}], "struct", (7, -7))
    S["pickle_var"] = (["pickle", {"child": ["varbytes", {}]}], "obj", None)
    S["pickle_var_off0"] = (["pickle", {"child": ["varbytes", {"cutoff": 0}]}], "obj", None)
    S["pickle_comp"] = (["pickle", {"child": ["comp", {}]}], "obj", None)
    S["vlist"] = (["vlist", {}], "vlist", [])
    S["flist2"] = (["flist", {"len": 2}], "flist2", [])
    # shipped but labelled experimental in the docs
    S["cblock"] = (["cblock", {"blocksize": 1}], "bytes", b"")
    S["clamped_b"] = (["clamped", {"tc": "b"}], "num:b", 0)
    return S


COLSPECS = _colspecs()
EXPERIMENTAL = ("cblock", "clamped_b")


def make_column(spec):
    from whoosh import columns
    name, kw = spec[0], (spec[1] if len(spec) > 1 else {})
    if name == "varbytes":
        return columns.VarBytesColumn(allow_offsets=kw.get("allow_offsets", True),
                                      write_offsets_cutoff=kw.get("cutoff", 2 ** 15))
    if name == "fixed":
        d = kw.get("default")
        return columns.FixedBytesColumn(kw["len"], default=None if d is None else _b(d))
    if name == "ref":
        d = kw.get("default")
        return columns.RefBytesColumn(kw.get("fixedlen", 0), default=None if d is None else _b(d))
    if name == "num":
        return columns.NumericColumn(kw["tc"], default=kw.get("default", 0))
    if name == "bit":
        return columns.BitColumn(compress_at=kw.get("compress_at", 2048))
    if name == "comp":
        return columns.CompressedBytesColumn()
    if name == "struct":
        return columns.StructColumn(kw["spec"], tuple(kw["default"]))
    if name == "pickle":
        return columns.PickleColumn(make_column(kw["child"]))
    if name == "vlist":
        return columns.VarBytesListColumn()
    if name == "flist":
        return columns.FixedBytesListColumn(kw["len"])
    if name == "cblock":
        return columns.CompressedBlockColumn(blocksize=kw.get("blocksize", 32))
    if name == "clamped":
        return columns.ClampedNumericColumn(columns.NumericColumn(kw["tc"]))
    raise ValueError(spec)


_INTRANGE = {"b": (-128, 127), "B": (0, 255), "h": (-2 ** 15, 2 ** 15 - 1),
             "H": (0, 2 ** 16 - 1), "i": (-2 ** 31, 2 ** 31 - 1), "I": (0, 2 ** 32 - 1),
             "q": (-2 ** 63, 2 ** 63 - 1), "Q": (0, 2 ** 64 - 1)}
F32MAX = struct.unpack("<f", struct.pack("<I", 0x7f7fffff))[0]


def edge_values(kind):
    """Edge alphabet of a value kind (contains the values equal to the
    defaults of every column of that kind: those are elided by some writers)."""
    if kind == "bytes":
        # incl. values that look like a column's own framing: a complete zlib
        # stream (of nothing / of text) and a pickle
        import zlib
        return [b"", b"\x00", b"a", zlib.compress(b""), b"dflt", sized(300, 0), b"\xff\xfe\x00",
                zlib.compress(b"abc" * 20), b"\x80\x02K\x01."]
    if kind == "fixed3":
        return [b"\x00\x00\x00", b"zzz", b"abc", b"\xff\xff\xff", b"\x00\x00\x01"]
    if kind.startswith("num:"):
        tc = kind[4:]
        if tc in _INTRANGE:
            lo, hi = _INTRANGE[tc]
            vals = [lo, lo + 1, 0, 1, hi - 1, hi]
            if lo < 0:
                vals.insert(2, -1)
            if tc == "B":
                vals.append(255)
            return vals
        if tc == "f":
            return [0.0, -0.0, 1.5, -2.5, float("inf"), float("-inf"), 2.0 ** -149, F32MAX,
                    float("nan")]
        return [0.0, -0.0, 1.5, -2.5, float("inf"), float("-inf"), 5e-324,
                1.7976931348623157e308, float("nan"), 0.1]
    if kind == "bool":
        return [True, False]
    if kind == "struct":
        return [(0, 0), (7, -7), (2 ** 31 - 1, -2 ** 15), (-2 ** 31, 2 ** 15 - 1), (1, 0)]
    if kind == "obj":
        return [None, 0, "", "a\U0001d4b3", b"\x00", [1, [2]], {"a": (1, 2.5)}, True, False,
                2 ** 70, -1.5]
    if kind == "vlist":
        return [[], [b""], [b"a"], [b"a", b""], [b"\x00", b"bc", sized(300, 1)]]
    if kind == "flist2":
        return [[], [b"ab"], [b"ab", b"\x00\x00"], [b"\x00\x00"]]
    raise ValueError(kind)


def distinct_value(kind, j):
    """The j-th value of a sequence without repetitions (where the kind has
    enough values), never equal to a default."""
    if kind == "bytes":
        return b"v%d" % j
    if kind == "fixed3":
        return struct.pack(">I", j + 1)[1:]
    if kind.startswith("num:"):
        tc = kind[4:]
        if tc in _INTRANGE:
            lo, hi = _INTRANGE[tc]
            return lo + ((j * 97 + 1) % (hi - lo + 1))
        return float(j) + 0.5
    if kind == "bool":
        return j % 3 == 0
    if kind == "struct":
        return (j + 1, -(j % 30000))
    if kind == "obj":
        return ["o", j]
    if kind == "vlist":
        return [b"%d" % j, b"x"]
    if kind == "flist2":
        return [struct.pack(">H", j % 65536)] * (1 + j % 3)
    raise ValueError(kind)


def rows_of(pattern, n):
    p = pattern[0]
    if p == "all":
        return list(range(n))
    if p == "none":
        return []
    if p == "even":
        return list(range(0, n, 2))
    if p == "odd":
        return list(range(1, n, 2))
    if p == "only":
        i = pattern[1] if pattern[1] >= 0 else n + pattern[1]
        return [i] if 0 <= i < n else []
    if p == "but":
        i = pattern[1] if pattern[1] >= 0 else n + pattern[1]
        return [x for x in range(n) if x != i]
    if p == "range":
        a, b = pattern[1], pattern[2]
        a = a if a >= 0 else n + a
        b = b if b >= 0 else n + b
        return list(range(max(a, 0), min(b, n)))
    if p == "ends":
        return sorted(set([0, n - 1])) if n else []
    raise ValueError(pattern)


BIG_PATTERNS = [["all"], ["none"], ["even"], ["odd"], ["only", 0], ["only", -1], ["only", 128],
                ["but", 0], ["but", -1], ["range", 0, 128], ["range", 128, 1000], ["ends"]]


class MemFiles(object):
    """Column files on the three back-ends: what column readers are handed."""

    def __init__(self, backend):
        self.backend = backend
        if backend == "ram":
            from whoosh.filedb.filestore import RamStorage
            self.st = RamStorage()
        else:
            from whoosh.filedb.filestore import FileStorage
            self.dir = core.fresh_dir("col")
            self.st = FileStorage(self.dir, supports_mmap=(backend == "file"))

    def close(self):
        if self.backend != "ram":
            import shutil
            shutil.rmtree(self.dir, ignore_errors=True)


def col_roundtrip(st, colname, n, present, basepos, name="c"):
    """present: dict row -> value.  Returns (observations, info) where
    observations = {"item": [...], "iter": [...] | exc, "load": [...] | exc}
    with exceptions returned as Exception objects in place of values."""
    spec, kind, default = COLSPECS[colname]
    info = {}
    col = make_column(spec)
    f = st.create_file(name)
    if basepos:
        f.write(b"h" * basepos)
    with warnings.catch_warnings(record=True) as wlist:
        warnings.simplefilter("always")
        w = col.writer(f)
        for row in sorted(present):
            w.add(row, present[row])
        w.finish(n)
    info["warnings"] = len(wlist)
    length = f.tell() - basepos
    f.close()
    f = st.open_file(name)
    obs = {}
    try:
        try:
            r = col.reader(f, basepos, length, n)
        except Exception as e:
            return {"open": e}, info
        raw = r
        while hasattr(raw, "_child"):
            raw = raw._child
        if hasattr(raw, "had_stored_offsets"):
            info["offsets"] = bool(raw.had_stored_offsets)
            info["offsets_typecode"] = getattr(raw._offsets, "typecode", None)
        if hasattr(raw, "_typecode") and hasattr(raw, "_uniques"):
            info["ref_typecode"] = raw._typecode
        items = []
        for i in range(n):
            try:
                items.append(r[i])
            except Exception as e:
                items.append(e)
        obs["item"] = items
        try:
            obs["iter"] = list(r)
        except Exception as e:
            obs["iter"] = e
        try:
            ld = r.load()
            obs["load"] = [ld[i] for i in range(n)]
        except Exception as e:
            obs["load"] = e
    finally:
        f.close()
    return obs, info


def ref_expected(vals_in_order, default, limit=65535):
    """Documented RefBytesColumn behaviour: at most 65535 distinct non-default
    values; further distinct values are converted to the default."""
    seen = {}
    out = []
    for v in vals_in_order:
        if v == default:
            out.append(v)
            continue
        if v not in seen:
            seen[v] = len(seen) + 1
        out.append(v if seen[v] <= limit else default)
    return out, len(seen)


def col_compare(colname, n, present, obs):
    """-> list of (path, kind, detail) discrepancies."""
    spec, kind, default = COLSPECS[colname]
    out = []
    if "open" in obs:
        e = obs["open"]
        return [("open", exc_kind(e), "reader() raised %r" % (e,))]
    rows = sorted(present)
    expected = [default] * n
    if spec[0] == "ref":
        vs, _ = ref_expected([present[r] for r in rows], default)
        for r, v in zip(rows, vs):
            expected[r] = v
    else:
        for r in rows:
            expected[r] = present[r]
    if kind == "struct":
        expected = [tuple(v) for v in expected]

    def cmp_list(path, got):
        if isinstance(got, Exception):
            out.append((path, ("absent-" if len(present) < n else "") + exc_kind(got),
                        "%s raised %r" % (path, got)))
            return
        if len(got) != n:
            out.append((path, "length", "%s yields %d values for %d rows" % (path, len(got), n)))
            return
        for i in range(n):
            g = got[i]
            if isinstance(g, Exception):
                out.append((path, ("" if i in present else "absent-") + exc_kind(g),
                            "row %d of %d (%s): raised %r" % (
                                i, n, "present" if i in present else "absent", g)))
                return
            if not same(g, expected[i]):
                note = ""
                if i not in present:
                    k = "absent-not-default"
                else:
                    k = "mismatch"
                    if any(same(g, present[r]) for r in rows if r != i) and not same(g, default):
                        note = " (the value of another row)"
                    elif same(g, default):
                        note = " (the default)"
                if isinstance(expected[i], bytes) and not isinstance(g, bytes) and g == expected[i]:
                    k = "type"
                out.append((path, k, "row %d of %d: got %s%s expected %s" % (
                    i, n, short(g), note, short(expected[i]))))
                return

    cmp_list("item", obs["item"])
    k = len(out)
    cmp_list("iter", obs["iter"])
    if len(out) > k and any(o[1] == out[k][1] for o in out[:k]):
        del out[k:]     # same symptom through item access: one cause
    k = len(out)
    cmp_list("load", obs["load"])
    if len(out) > k and any(o[1] == out[k][1] for o in out[:k]):
        del out[k:]     # load() is list(self) / self[i] in most readers: same symptom, same cause
    return out


def col_present(colname, n, pattern, scheme):
    spec, kind, default = COLSPECS[colname]
    if scheme[0] == "explicit":
        edge = edge_values(kind)
        return dict((i, edge[x]) for i, x in enumerate(scheme[1]) if x is not None)
    if scheme[0] == "sizes":
        return dict((i, sized(z, i)) for i, z in enumerate(scheme[1]) if z is not None)
    rows = rows_of(pattern, n)
    if scheme[0] == "cyc":
        edge = edge_values(kind)
        return dict((r, edge[j % len(edge)]) for j, r in enumerate(rows))
    if scheme[0] == "distinct":
        return dict((r, distinct_value(kind, j)) for j, r in enumerate(rows))
    if scheme[0] == "twice":
        return dict((r, distinct_value(kind, j // 2)) for j, r in enumerate(rows))
    raise ValueError(scheme)


def run_col_case(st, case, acc=None):
    install_probe()
    del PROBE[:]
    colname, n = case["col"], case["n"]
    present = col_present(colname, n, case.get("rows"), case["scheme"])
    try:
        obs, info = col_roundtrip(st, colname, n, present, case.get("basepos", 0))
    except Exception as e:
        return [("write", exc_kind(e), "writer raised %r" % (e,))], {}, present
    info["probe"] = bool(PROBE)
    return col_compare(colname, n, present, obs), info, present


def col_sig(case, path, kind, probe=False):
    spec = COLSPECS[case["col"]][0]
    cls = spec[0]
    if cls == "pickle":
        cls = "pickle(%s)" % spec[1]["child"][0]
    if case["col"] in EXPERIMENTAL:
        # documented as experimental: one group per class, whatever the symptom
        return "col:%s(experimental)|broken" % cls
    if probe and uses_offsets(spec):
        return FINISH_SIG
    if "exc:" in kind:
        prefix, rest = kind.split("exc:", 1)
        return "exc|" + rest + ("|" + prefix.rstrip("-") if prefix else "")
    return "col:%s%s|%s|%s" % (cls, "+offsets" if uses_offsets(spec) else "", path, kind)


def col_cases(group, tier):
    """Generators of column-level cases, simplest first.  A group is a
    (family, colname) pair so that tasks stay around a second."""
    fam, colname = group
    spec, kind, default = COLSPECS[colname]
    backends = ("ram", "file", "file_nommap")
    if fam == "small":
        nmax = 3 if tier == "quick" else 4
        edge = edge_values(kind)
        if tier == "quick" and len(edge) > 6:
            idx = list(range(6))
        else:
            idx = list(range(len(edge)))
        for n in range(0, nmax + 1):
            alpha = [None] + idx
            if n == 4:
                alpha = [None] + idx[:4]
            for assign in itertools.product(alpha, repeat=n):
                for be in backends:
                    for bp in (0, 5):
                        if n == nmax and (be, bp) not in (("ram", 5), ("file", 0), ("file_nommap", 0)):
                            continue
                        yield {"kind": "col", "col": colname, "n": n, "scheme": ["explicit", list(assign)],
                               "backend": be, "basepos": bp}
    elif fam == "rows":
        for n in (255, 256, 257):
            for pat in BIG_PATTERNS:
                for scheme in (["cyc"], ["distinct"]):
                    for be in backends:
                        yield {"kind": "col", "col": colname, "n": n, "rows": pat, "scheme": scheme,
                               "backend": be, "basepos": 0 if be != "ram" else 5}
    elif fam == "refbig":
        # u distinct non-default values; dense, sparse (odd rows: leading and
        # inner gaps + padding after the byte->short switch) and each twice
        for u in (65534, 65535, 65536, 65537):
            for shape in ("dense", "sparse", "twice"):
                for be in (("ram", "file") if tier == "quick" else backends):
                    if shape == "dense":
                        c = {"n": u, "rows": ["all"], "scheme": ["distinct"]}
                    elif shape == "sparse":
                        c = {"n": 2 * u + 2, "rows": ["odd"], "scheme": ["distinct"]}
                    else:
                        c = {"n": 2 * u, "rows": ["all"], "scheme": ["twice"]}
                    c.update({"kind": "col", "col": colname, "backend": be, "basepos": 0})
                    yield c
    elif fam == "sizes":
        S = [None, 0, 1, 255, 256, 257, 32767, 32768, 65535, 65536, 70000]
        maxlen = 3 if tier == "quick" else 4
        for ln in range(1, maxlen + 1):
            alpha = S if ln < 4 else [None, 1, 255, 256, 65535, 65536, 70000]
            for seq in itertools.product(alpha, repeat=ln):
                for trail in (0, 1):
                    if trail == 0 and seq[-1] is None:
                        continue    # same as a shorter sequence with trail
                    for be in backends:
                        if ln >= 3 and be != backends[(len(seq) + trail + S.index(seq[0])) % 3]:
                            continue
                        yield {"kind": "col", "col": colname, "n": ln + trail,
                               "scheme": ["sizes", list(seq)], "backend": be, "basepos": 0}
    else:
        raise ValueError(fam)


def col_task(t):
    tier, group, nsl, sl = t
    acc = core.Acc()
    stores = {}
    try:
        for i, case in enumerate(col_cases(group, tier)):
            if i % nsl != sl:
                continue
            be = case["backend"]
            if be not in stores:
                stores[be] = MemFiles(be)
            res, info, present = run_col_case(stores[be].st, case)
            acc.count("evaluations")
            acc.count("column_cases")
            if present and case["n"]:
                acc.count("distinct_nontrivial")
            if info.get("offsets"):
                acc.count("varbytes_offsets_array_read")
                if info.get("offsets_typecode") in ("i", "I"):
                    acc.count("varbytes_offsets_wider_than_16bit")
            if info.get("ref_typecode") == "H":
                acc.count("refbytes_short_refs")
            if info.get("warnings"):
                acc.count("refbytes_dropped_value_warnings", info["warnings"])
            if len(present) < case["n"]:
                acc.count("column_cases_with_padding")
            for path, kind, detail in res:
                acc.violation(col_sig(case, path, kind, info.get("probe")), case,
                              "column %s (%s) n=%d backend=%s: %s" % (
                                  case["col"], COLSPECS[case["col"]][0], case["n"], be, detail))
            if i % 977 == 5:
                acc.sample(case)
    finally:
        for s in stores.values():
            s.close()
    return acc.result()


def replay_col(case):
    mf = MemFiles(case["backend"])
    try:
        res, info, present = run_col_case(mf.st, case)
    finally:
        mf.close()
    return {"ok": not res, "what": "; ".join("%s/%s: %s" % r for r in res) or "round trip ok",
            "info": info, "rows_present": len(present),
            "sigs": sorted(set(col_sig(case, p, k, info.get("probe")) for p, k, _ in res))}


# --------------------------------------------------------------------------
# (2) index level

class Pt(object):
    """A picklable user object (pickled by reference to this module)."""

    def __init__(self, x, y):
        self.x = x
        self.y = y

    def __eq__(self, other):
        return type(other) is Pt and (self.x, self.y) == (other.x, other.y)

    def __hash__(self):
        return hash((self.x, self.y))

    def __repr__(self):
        return "Pt(%r, %r)" % (self.x, self.y)


NOOVR = "<no override>"


def hexblob(n, salt):
    """n characters of poorly compressible text, deterministic."""
    import hashlib
    out = []
    i = 0
    while sum(len(o) for o in out) < n:
        out.append(hashlib.sha256(b"%d:%d" % (salt, i)).hexdigest())
        i += 1
    return "".join(out)[:n]


DT = datetime.datetime
TXT = ["a", "", "a b", "\xe9", "\U0001d4b3x", "b\x00c", "w" * 300, "zz a"]
OBJ = ["", "a", "\U0001d4b3\xe9", b"\x00ab\x00", b"", 0, -1, 2 ** 70, 1.5, -0.0, float("inf"),
       float("nan"), Decimal("1.10"), DT(2001, 2, 3, 4, 5, 6, 7), datetime.date(1, 1, 1),
       True, False, [], [1, "a", [2, None]], (1, 2), {"a": {"b": [1, None]}}, {1, 2},
       frozenset([3]), {}, Pt(1, [2])]
OBJ2 = [b"\x00", {"k": b"v\x00"}, [[]], "x" * 300, 255, 256, 65536, -2 ** 63, [True, None]]
DATES = [DT(1, 1, 1), DT(1, 1, 1, 0, 0, 0, 1), DT(1970, 1, 1), DT(2001, 2, 3, 4, 5, 6, 7),
         DT(1999, 12, 31, 23, 59, 59, 999999), DT(9999, 12, 31, 23, 59, 59, 999998),
         DT(9999, 12, 31, 23, 59, 59, 999999)]
FLOATS = [0.0, -0.0, 1.5, -2.5, 5e-324, -5e-324, 1.7976931348623157e308, float("inf"),
          float("-inf"), 0.1]
DECS = [Decimal("1.23"), Decimal("0.05"), Decimal("-0.05"), Decimal("0"), Decimal("-1.50"),
        Decimal("100"), Decimal("0.5"), Decimal("-0.99"), Decimal("21474836.46")]


def int_alpha(bits, signed):
    if signed:
        lo, hi = -(1 << (bits - 1)), (1 << (bits - 1)) - 1
        return [lo, lo + 1, -1, 0, 1, hi - 1, hi]
    hi = (1 << bits) - 1
    return [0, 1, 2, hi // 2, hi - 1, hi]


class FieldCfg(object):
    def __init__(self, name, make, alpha, stored=False, column=False, absent=None,
                 absent_any=False, override=None):
        self.name = name
        self.make = make            # () -> whoosh field
        self.alpha = alpha          # values supplied for the field
        self.stored = stored
        self.column = column
        self.absent = absent        # expected column value of a doc without the field
        self.absent_any = absent_any    # no decodable default documented: must not raise
        self.override = override    # alphabet of _stored_<f> values (may contain NOOVR)


def _families():
    from whoosh import fields, columns
    fam = {}

    def F(*a, **k):
        return FieldCfg(*a, **k)

    fam["text"] = [
        F("id_s", lambda: fields.ID(stored=True), TXT, stored=True),
        F("id_c", lambda: fields.ID(sortable=True), TXT, column=True, absent=""),
        F("id_sc", lambda: fields.ID(stored=True, sortable=True), TXT, stored=True, column=True, absent=""),
        F("tx_s", lambda: fields.TEXT(stored=True), TXT, stored=True),
        F("tx_c", lambda: fields.TEXT(sortable=True), TXT, column=True, absent=""),
        F("kw_sc", lambda: fields.KEYWORD(stored=True, sortable=True), TXT, stored=True, column=True, absent=""),
        F("id_ref", lambda: fields.ID(sortable=columns.RefBytesColumn()), TXT, column=True, absent=""),
        F("ng_s", lambda: fields.NGRAM(minsize=1, maxsize=2, stored=True, sortable=True), TXT[:6],
          stored=True, column=True, absent=""),
    ]
    ints = []
    for bits in (8, 16, 32, 64):
        for signed in (True, False):
            nm = "n%d%s" % (bits, "s" if signed else "u")
            hi = (1 << (bits - 1)) - 1 if signed else (1 << bits) - 1
            st = bits in (16, 64)
            ints.append(F(nm, (lambda b=bits, s=signed, st=st: fields.NUMERIC(int, b, signed=s, sortable=True, stored=st)),
                          int_alpha(bits, signed), stored=st, column=True, absent=hi))
    fam["int"] = ints
    fam["intdef"] = [
        F("n32s_default0", lambda: fields.NUMERIC(int, 32, sortable=True, default=0),
          int_alpha(32, True), column=True, absent=0),
        F("n8u_default7", lambda: fields.NUMERIC(int, 8, signed=False, sortable=True, default=7),
          int_alpha(8, False), column=True, absent=7),
    ]
    fam["typed"] = [
        F("dt_s", lambda: fields.DATETIME(stored=True), DATES, stored=True),
        F("bool_s", lambda: fields.BOOLEAN(stored=True), [True, False, False, True, True], stored=True),
        F("fl_s", lambda: fields.NUMERIC(float, stored=True), FLOATS, stored=True),
        F("dec_s", lambda: fields.NUMERIC(int, 32, decimal_places=2, stored=True), DECS, stored=True),
        F("n64_s", lambda: fields.NUMERIC(int, 64, stored=True), int_alpha(64, True), stored=True),
    ]
    fam["dt"] = [
        F("dt_sc", lambda: fields.DATETIME(stored=True, sortable=True), DATES, stored=True,
          column=True, absent_any=True),
    ]
    fam["float"] = [
        F("fl_c", lambda: fields.NUMERIC(float, sortable=True), FLOATS, column=True, absent_any=True),
    ]
    fam["dec"] = [
        F("dec_c", lambda: fields.NUMERIC(int, 32, decimal_places=2, sortable=True), DECS,
          column=True, absent=Decimal("21474836.47")),
    ]
    fam["stored"] = [
        F("st", lambda: fields.STORED(), OBJ, stored=True),
        F("st2", lambda: fields.STORED(), OBJ2, stored=True),
        F("ov", lambda: fields.ID(stored=True), TXT, stored=True,
          override=[NOOVR] + OBJ[:9] + OBJ[12:]),
        F("ov_tx", lambda: fields.TEXT(stored=True), TXT, stored=True,
          override=["visible", NOOVR, "", "\U0001d4b3", [1, 2], 0, b"\x00"]),
        F("ov_c", lambda: fields.ID(stored=True, sortable=True), TXT, stored=True, column=True,
          absent="", override=["zzz", "", NOOVR, "\U0001d4b3 q", "a"]),
        F("ov_n", lambda: fields.NUMERIC(int, 16, stored=True, sortable=True), int_alpha(16, True),
          stored=True, column=True, absent=32767, override=[5, NOOVR, -32768, 32767, 0]),
    ]
    cols = []
    coloff = []
    for cname, (spec, kind, default) in COLSPECS.items():
        if cname in EXPERIMENTAL:
            continue
        vals = edge_values(kind)
        if kind not in ("bool",):
            vals = vals + [distinct_value(kind, 3)]
        cfg = F("col_" + cname, (lambda s=spec: fields.COLUMN(make_column(s))), vals,
                column=True, absent=default)
        cfg.kind = kind
        cfg.colspec = spec
        if "cutoff" in spec[1] or (spec[0] == "pickle" and "cutoff" in spec[1]["child"][1]):
            coloff.append(cfg)
        else:
            cols.append(cfg)
    fam["col"] = cols
    fam["col_off"] = coloff
    b1, b2, b3 = hexblob(70000, 1), hexblob(40000, 2), hexblob(33000, 3)
    fam["big"] = [
        F("big_id", lambda: fields.ID(stored=True, sortable=True), [b1, "s", b2, ""], stored=True,
          column=True, absent=""),
        F("big_st", lambda: fields.STORED(), [[b3, b2], b1.encode("ascii"), 1, {"b": b2}], stored=True),
        F("big_col", lambda: fields.COLUMN(columns.VarBytesColumn()),
          [b2.encode("ascii"), b1.encode("ascii"), b"", b3.encode("ascii")], column=True, absent=b""),
        F("big_pick", lambda: fields.COLUMN(columns.PickleColumn(columns.CompressedBytesColumn())),
          [[b1], b3, None, {"x": b2}], column=True, absent=None),
    ]
    return fam


_FAM = None


def families():
    global _FAM
    if _FAM is None:
        _FAM = _families()
    return _FAM


def family_rotations(famname, tier):
    cfgs = families()[famname]
    n = max(max(len(c.alpha), len(c.override or ())) for c in cfgs)
    if famname == "big":
        return [0, 1]
    if tier == "quick":
        return list(range(0, n, D))
    return list(range(n))


def doc_plan(famname, rot, mask, keystored, only=None):
    """-> (cfgs, add_document kwargs per doc, expected stored dict per doc,
    expected column value (or ABSENT) per doc per field)."""
    cfgs = [c for c in families()[famname] if only is None or c.name in only]
    kwargs, stored, colexp = [], [], []
    for i in range(D):
        kw = {"k": "k%d" % i}
        sd = {"k": "k%d" % i} if keystored else {}
        ce = {}
        present = bool(mask & (1 << i))
        for c in cfgs:
            v = c.alpha[(rot + i) % len(c.alpha)] if present else None
            if v is not None:       # a None value means "not supplied"
                kw[c.name] = v
                eff = v
                if c.override is not None:
                    o = c.override[(rot + i) % len(c.override)]
                    if not (isinstance(o, str) and o == NOOVR):
                        kw["_stored_" + c.name] = o
                        eff = o
                if c.stored:
                    sd[c.name] = eff
                if c.column:
                    ce[c.name] = tuple(eff) if getattr(c, "kind", None) == "struct" else eff
            else:
                if i % 2:
                    kw[c.name] = None       # None and omitted both mean "not supplied"
                if c.column:
                    ce[c.name] = ABSENT
        kwargs.append(kw)
        stored.append(sd)
        colexp.append(ce)
    return cfgs, kwargs, stored, colexp


class _Absent(object):
    def __repr__(self):
        return "<absent>"


ABSENT = _Absent()


def make_schema(cfgs, keystored):
    from whoosh import fields
    s = fields.Schema(k=fields.ID(unique=True, stored=keystored))
    for c in cfgs:
        s.add(c.name, c.make())
    return s


def build(schema, kwargs, layout):
    """layout: segs, final (none|optimize|lastmerge), deleted [doc indexes],
    compound, storage."""
    random.seed(0)
    st = corpus.open_storage(layout.get("storage", "ram"))
    ix = st.create_index(schema)
    compound = layout.get("compound", True)
    segs = layout["segs"]
    pos = 0
    try:
        for si, n in enumerate(segs):
            w = ix.writer()
            w.compound = compound
            try:
                for i in range(pos, pos + n):
                    w.add_document(**kwargs[i])
            except Exception:
                w.cancel()
                raise
            pos += n
            if si == len(segs) - 1 and layout.get("final") == "lastmerge":
                w.commit()
            else:
                w.commit(merge=False)
        if layout.get("deleted"):
            w = ix.writer()
            w.compound = compound
            for i in layout["deleted"]:
                w.delete_by_term("k", "k%d" % i)
            w.commit(merge=False)
        if layout.get("final") == "optimize":
            w = ix.writer()
            w.compound = compound
            w.commit(optimize=True)
    except Exception:
        corpus.destroy_index(ix)
        raise
    return ix


def reopen(ix, how):
    from whoosh.filedb.filestore import FileStorage, copy_to_ram
    if how == "same":
        return ix
    folder = ix.storage.folder
    if how == "mmap":
        return FileStorage(folder, supports_mmap=True).open_index()
    if how == "nommap":
        return FileStorage(folder, supports_mmap=False).open_index()
    if how == "copy_to_ram":
        return copy_to_ram(FileStorage(folder)).open_index()
    raise ValueError(how)


def observe(ix, cfgs, stored, colexp, deleted, stats):
    """Compare everything readable with the expectation.  Returns a list of
    (cfgname, path, kind, detail); cfgname None = not attributable to a
    field."""
    from whoosh import query
    out = []

    def bad(cfg, path, kind, detail):
        out.append((cfg, path, kind, detail))

    live = [i for i in range(D) if i not in deleted]
    with ix.searcher() as s:
        r = s.reader()
        leaves = list(r.leaf_readers())
        multi = len(leaves) > 1
        if multi:
            stats["multi_segment_readers"] = 1
        docnum = {}
        for i in range(D):
            dn = s.document_number(k="k%d" % i)
            if i in deleted:
                if dn is not None:
                    bad(None, "docs", "deleted-doc-found", "deleted doc k%d still found" % i)
                continue
            if dn is None or dn in docnum.values() or r.is_deleted(dn):
                # the documents are identified through this lookup: without it
                # nothing else can be attributed
                bad(None, "docs", "key-lookup-failed", "document_number(k=k%d) returned %r for a live document" % (i, dn))
                return out
            docnum[i] = dn

        # ---- stored fields
        def cmp_stored(path, i, got):
            exp = stored[i]
            if not isinstance(got, dict):
                bad(None, "stored", "not-a-dict", "%s(k%d) returned %r" % (path, i, got))
                return
            for f in sorted(set(exp) | set(got)):
                if f not in got:
                    bad(f, "stored", "missing", "%s(k%d): field %s missing, expected %s" % (path, i, f, short(exp[f])))
                elif f not in exp:
                    other = [j for j in range(D) if f in stored[j] and same(stored[j][f], got[f])]
                    bad(f, "stored", "extra", "%s(k%d): field %s=%s although not supplied%s" % (
                        path, i, f, short(got[f]), " (value of k%d)" % other[0] if other else ""))
                elif not same(got[f], exp[f]):
                    bad(f, "stored", "mismatch", "%s(k%d): %s=%s expected %s" % (
                        path, i, f, short(got[f]), short(exp[f])))

        for i in live:
            try:
                cmp_stored("stored_fields", i, s.stored_fields(docnum[i]))
            except Exception as e:
                bad(None, "stored", exc_kind(e), "stored_fields(k%d) raised %r" % (i, e))
            try:
                cmp_stored("document", i, s.document(k="k%d" % i))
            except Exception as e:
                bad(None, "stored", exc_kind(e), "document(k%d) raised %r" % (i, e))
        try:
            allsf = list(r.all_stored_fields())
            order = sorted(live, key=lambda i: docnum[i])
            if len(allsf) != len(order):
                bad(None, "stored", "count", "all_stored_fields yields %d dicts for %d live docs" % (
                    len(allsf), len(order)))
            else:
                for i, got in zip(order, allsf):
                    cmp_stored("all_stored_fields", i, got)
        except Exception as e:
            bad(None, "stored", exc_kind(e), "all_stored_fields raised %r" % (e,))

        # ---- columns
        colcfgs = [c for c in cfgs if c.column]
        actual = {}     # (cfgname, i) -> value seen through the whole-index reader

        def expect(c, i):
            v = colexp[i][c.name]
            if v is ABSENT:
                return c.absent, True
            return v, False

        def cmp_col(c, path, i, g):
            """False if discrepancy"""
            e, absent = expect(c, i)
            if isinstance(g, Exception):
                bad(c.name, path, ("absent-" if absent else "") + exc_kind(g),
                    "%s of k%d (%s) raised %r" % (path, i, "not supplied" if absent else "supplied %s" % short(e), g))
                return False
            if absent and c.absent_any:
                return True
            if same(g, e):
                return True
            others = [j for j in range(D) if j != i and colexp[j][c.name] is not ABSENT
                      and same(colexp[j][c.name], g)]
            kind = "absent-not-default" if absent else "mismatch"
            bad(c.name, path, kind, "%s of k%d: got %s expected %s%s" % (
                path, i, short(g), short(e) if not absent else "the default %s" % short(e),
                " (that is the value of k%d)" % others[0] if others else ""))
            return False

        def agree(x, y):
            if isinstance(x, Exception) or isinstance(y, Exception):
                return type(x) is type(y)
            return same(x, y)

        for c in colcfgs:
            leafvals = {}
            lacking = 0
            leaf_iter_bad = False
            k0 = len(out)
            for leaf, base in leaves:
                n = leaf.doc_count_all()
                members = [i for i in live if base <= docnum[i] < base + n]
                try:
                    has = bool(leaf.has_column(c.name))
                except Exception as e:
                    bad(c.name, "column", exc_kind(e), "has_column raised %r" % (e,))
                    continue
                if not has:
                    lacking += 1
                    stats["segment_lacks_column"] = stats.get("segment_lacks_column", 0) + 1
                try:
                    cr = leaf.column_reader(c.name)
                except Exception as e:
                    who = "Column.default_value" if whoosh_frame(e).endswith(":default_value") else c.name
                    bad(who, "column", ("nocolumn-" if not has else "") + exc_kind(e),
                        "segment column_reader(%s) raised %r (segment %s values)" % (
                            c.name, e, "has" if has else "has no"))
                    for i in members:
                        leafvals[i] = e
                    continue
                for i in members:
                    try:
                        g = cr[docnum[i] - base]
                    except Exception as e:
                        g = e
                    leafvals[i] = g
                    cmp_col(c, "column", i, g)
                if len(out) > k0:
                    leaf_iter_bad = True
                    continue        # iteration shares the decoding with item access
                try:
                    lst = list(cr)
                except Exception as e:
                    # iteration also decodes rows of deleted documents
                    hole = any(colexp[i][c.name] is ABSENT for i in range(D))
                    bad(c.name, "column-iter", ("absent-" if hole else "") + exc_kind(e),
                        "iterating the segment column raised %r" % (e,))
                    leaf_iter_bad = True
                    continue
                if len(lst) != n:
                    bad(c.name, "column-iter", "length", "segment column iterates %d values for %d docs" % (len(lst), n))
                    leaf_iter_bad = True
                    continue
                for i in members:
                    cmp_col(c, "column-iter", i, lst[docnum[i] - base])
            # whole-index reader: must agree with the per-segment readers
            if not multi:
                for i in live:
                    if i in leafvals:
                        actual[(c.name, i)] = leafvals[i]
                continue
            det = None
            try:
                cr = r.column_reader(c.name)
            except Exception as e:
                cr = None
                if not all(isinstance(v, Exception) and type(v) is type(e) for v in leafvals.values()):
                    det = "index column_reader(%s) raised %r" % (c.name, e)
                for i in live:
                    actual[(c.name, i)] = e
            if cr is not None:
                # the same reader object asked in descending, then in
                # ascending document order: the answer for a document must not
                # depend on which one was asked for before
                order_bad = None
                try:
                    desc = dict((i, cr[docnum[i]]) for i in sorted(live, key=lambda i: -docnum[i]))
                    asc = dict((i, cr[docnum[i]]) for i in sorted(live, key=lambda i: docnum[i]))
                    for i in live:
                        if not agree(desc[i], asc[i]):
                            order_bad = "index column_reader(%s)[doc of k%d] -> %s when documents are asked for in descending order, %s in ascending order" % (
                                c.name, i, short(desc[i]), short(asc[i]))
                            break
                except Exception as e:
                    try:
                        for i in sorted(live, key=lambda i: docnum[i]):
                            cr[docnum[i]]
                        order_bad = "index column_reader(%s): reading documents in descending order raised %r, ascending order works" % (c.name, e)
                    except Exception:
                        pass
                    cr = r.column_reader(c.name)
                if order_bad is not None:
                    out.append((None, "MultiReader.column_reader|access-order", "wrong", "segment sizes %r: %s" % (
                        [l.doc_count_all() for l, _ in leaves], order_bad)))
                    cr = r.column_reader(c.name)
                for i in live:
                    try:
                        g = cr[docnum[i]]
                    except Exception as e:
                        g = e
                    actual[(c.name, i)] = g
                    if (det is None and i in leafvals and not isinstance(leafvals[i], Exception)
                            and not agree(g, leafvals[i])):
                        others = [j for j in live if j != i and j in leafvals and not isinstance(g, Exception)
                                  and not isinstance(leafvals[j], Exception) and same(leafvals[j], g)
                                  and not same(leafvals[i], g)]
                        det = "index column_reader(%s)[doc of k%d] -> %s but its segment's reader -> %s%s" % (
                            c.name, i, short(g), short(leafvals[i]),
                            " (that is the value of k%d)" % others[0] if others else "")
                if det is None and not leaf_iter_bad and not any(isinstance(v, Exception)
                                                                  for v in leafvals.values()):
                    try:
                        lst = list(cr)
                        if len(lst) != r.doc_count_all():
                            det = "iterating index column_reader(%s) yields %d values for %d docs" % (
                                c.name, len(lst), r.doc_count_all())
                        else:
                            for i in live:
                                if i in leafvals and not agree(lst[docnum[i]], leafvals[i]):
                                    det = "iterating index column_reader(%s): doc of k%d -> %s, segment reader -> %s" % (
                                        c.name, i, short(lst[docnum[i]]), short(leafvals[i]))
                                    break
                    except Exception as e:
                        det = "iterating index column_reader(%s) raised %r" % (c.name, e)
            if det is not None:
                tag = "MultiReader.column_reader|%s" % (
                    "no-segment-has-column" if lacking == len(leaves) else
                    "segment-lacks-column" if lacking else "all-segments-have-column")
                out.append((None, tag, "wrong", "segment sizes %r: %s" % (
                    [l.doc_count_all() for l, _ in leaves], det)))
                if lacking:
                    stats["multireader_gap_cases"] = 1

        # ---- hits
        try:
            res = s.search(query.Every(), limit=None)
            hits = dict((h.docnum, h) for h in res)
        except Exception as e:
            hits = {}
            bad(None, "hit", exc_kind(e), "search(Every()) raised %r" % (e,))
        if hits and set(hits) != set(docnum.values()):
            bad(None, "hit", "every-mismatch", "search(Every()) returned docs %r, live documents are %r"
                % (sorted(hits), sorted(docnum.values())))
            return out
        for i in live:
            h = hits.get(docnum[i])
            if h is None:
                continue
            try:
                cmp_stored("Hit.fields", i, h.fields())
            except Exception as e:
                bad(None, "stored", exc_kind(e), "Hit.fields(k%d) raised %r" % (i, e))
            for c in cfgs:
                if c.name in stored[i]:
                    try:
                        g = h[c.name]
                        if not same(g, stored[i][c.name]):
                            bad(c.name, "hit", "mismatch", "Hit[%s] of k%d: %s expected stored %s" % (
                                c.name, i, short(g), short(stored[i][c.name])))
                    except Exception as e:
                        bad(c.name, "hit", exc_kind(e), "Hit[%s] of k%d raised %r" % (c.name, i, e))
                elif c.column and (c.name, i) in actual and r.has_column(c.name):
                    stats["hit_column_fallbacks"] = stats.get("hit_column_fallbacks", 0) + 1
                    a = actual[(c.name, i)]
                    try:
                        g = h[c.name]
                    except Exception as e:
                        g = e
                    if isinstance(a, Exception) or isinstance(g, Exception):
                        if type(a) is not type(g):
                            bad(c.name, "hit", "differs-from-column", "Hit[%s] of k%d: %r but column reader: %r" % (
                                c.name, i, g, a))
                    elif not same(g, a):
                        bad(c.name, "hit", "differs-from-column", "Hit[%s] of k%d = %s but column value %s" % (
                            c.name, i, short(g), short(a)))
                    if c.name not in h:
                        bad(c.name, "hit", "not-contained", "%r in hit is False although the column exists" % c.name)
    return out


READS = {"ram": ["same"], "file": ["same", "nommap", "copy_to_ram"], "file_nommap": ["same"]}


def ix_sig(cfgname, path, kind, probe=False, cfgs=()):
    if cfgname is None and path.startswith("MultiReader"):
        return "ix:" + path
    if probe and path in ("column", "column-iter", "hit"):
        for c in cfgs:
            if c.name == cfgname and getattr(c, "colspec", None) and uses_offsets(c.colspec):
                return FINISH_SIG
    if "exc:" in kind:
        prefix, rest = kind.split("exc:", 1)
        return "exc|" + rest + ("|" + prefix.rstrip("-") if prefix else "")
    return "ix:%s|%s|%s" % (cfgname or "-", path, kind)


def run_ix_case(case, stats=None):
    """-> list of (sig, detail)."""
    stats = stats if stats is not None else {}
    lay = case["layout"]
    only = case.get("fields")
    cfgs, kwargs, stored, colexp = doc_plan(case["family"], case["rot"], case["mask"],
                                            case["keystored"], only)
    schema = make_schema(cfgs, case["keystored"])
    install_probe()
    del PROBE[:]
    try:
        ix = build(schema, kwargs, lay)
    except core.HarnessError:
        raise
    except Exception as e:
        kind = exc_kind(e)
        culprit = ""
        if len(cfgs) > 1:
            # which single field reproduces it?
            for c in cfgs:
                sub_cfgs, sub_kw, _, _ = doc_plan(case["family"], case["rot"], case["mask"],
                                                  case["keystored"], [c.name])
                try:
                    corpus.destroy_index(build(make_schema(sub_cfgs, case["keystored"]), sub_kw, lay))
                except Exception as e2:
                    if type(e2) is type(e):
                        culprit = " (field %s alone reproduces it)" % c.name
                        break
        elif cfgs:
            culprit = " (field %s)" % cfgs[0].name
        return [(ix_sig(None, "write", kind) + "|write", "building the index raised %r%s" % (e, culprit))]
    probe = bool(PROBE)
    res = []
    try:
        for how in case.get("reads") or READS[lay.get("storage", "ram")]:
            ix2 = reopen(ix, how)
            try:
                obs = observe(ix2, cfgs, stored, colexp, lay.get("deleted") or [], stats)
            finally:
                if ix2 is not ix:
                    ix2.close()
            stats["observations"] = stats.get("observations", 0) + 1
            for cfgname, path, kind, detail in obs:
                res.append((ix_sig(cfgname, path, kind, probe, cfgs), "read=%s: %s" % (how, detail)))
    finally:
        corpus.destroy_index(ix)
    return res


def all_layouts(tier):
    """Segment layouts of the 4 documents, simplest first."""
    out = []
    comps = corpus.compositions(D)
    for segs in comps:
        out.append({"segs": segs, "final": "none"})
    for segs in comps:
        if len(segs) > 1:
            out.append({"segs": segs, "final": "optimize"})
            out.append({"segs": segs, "final": "lastmerge"})
    dels = (0, 2) if tier == "quick" else (0, 1, 2, 3)
    for segs in comps:
        for j in dels:
            out.append({"segs": segs, "final": "optimize", "deleted": [j]})
    if tier != "quick":
        for segs in comps:
            out.append({"segs": segs, "final": "none", "deleted": [1]})
    return out


STORAGES = [("ram", True), ("file", True), ("file_nommap", True),
            ("ram", False), ("file", False), ("file_nommap", False)]


def ix_cases(famname, rot, items, keystored_opts):
    """items: [(layout, [(storage, compound), ...]), ...]"""
    for lay, storages in items:
        for mask in range(1 << D):
            for ks in keystored_opts:
                for stname, compound in storages:
                    l = dict(lay)
                    l["storage"] = stname
                    l["compound"] = compound
                    yield {"kind": "ix", "family": famname, "rot": rot, "mask": mask,
                           "keystored": ks, "layout": l}


def ix_task(t):
    famname, rot, items, ksopts = t
    acc = core.Acc()
    found = {}
    for n, case in enumerate(ix_cases(famname, rot, items, ksopts)):
        stats = {}
        res = run_ix_case(case, stats)
        acc.count("evaluations", max(1, stats.get("observations", 0)))
        acc.count("index_builds")
        if case["mask"]:
            acc.count("distinct_nontrivial")
        for k in ("multi_segment_readers", "segment_lacks_column", "hit_column_fallbacks",
                  "multireader_gap_cases"):
            if stats.get(k):
                acc.count(k, stats[k])
        if case["layout"]["storage"] != "ram":
            acc.count("file_storage_builds")
        seen = set()
        for sig, detail in res:
            if sig in seen:
                continue
            seen.add(sig)
            found.setdefault(sig, []).append((case, "family=%s rot=%d mask=%s layout=%r: %s" % (
                famname, rot, format(case["mask"], "04b"), case["layout"], detail)))
        if n % 211 == 17:
            acc.sample(case)
    for sig, lst in found.items():
        # most telling witness first (a value that belongs to another document)
        lst.sort(key=lambda cw: 0 if "that is the value of" in cw[1] else 1)
        for case, what in lst:
            acc.violation(sig, case, what)
    return acc.result()


def replay_ix(case):
    stats = {}
    res = run_ix_case(case, stats)
    return {"ok": not res, "what": "; ".join("%s: %s" % r for r in res[:6]) or "all values read back",
            "sigs": sorted(set(s for s, _ in res)), "stats": stats}


# --------------------------------------------------------------------------

REDUCED = [{"segs": [4], "final": "none"}, {"segs": [1, 3], "final": "none"},
           {"segs": [2, 2], "final": "optimize"}, {"segs": [1, 1, 1, 1], "final": "lastmerge"},
           {"segs": [3, 1], "final": "optimize", "deleted": [0]}]
KS_FAMILIES = ("text", "typed", "stored")


def chunks(items, maxbuilds=128):
    out, cur, n = [], [], 0
    for lay, sts in items:
        b = len(sts) * (1 << D)
        if cur and n + b > maxbuilds:
            out.append(cur)
            cur, n = [], 0
        cur.append((lay, sts))
        n += b
    if cur:
        out.append(cur)
    return out


# ---------------------------------------------------------------------------
# rejected documents: an add_document() that raises part-way must leave no
# trace in the documents added afterwards in the same writer

REJ_ALPHA = ["full", "min", "bad_late", "bad_early", "col_only"]


def rej_doc(kind, i):
    k = u"k%d" % i
    if kind == "full":
        return {"key": k, "alpha": [u"A%d" % i, i], "body": u"body %d" % i, "cc": u"c%d" % i, "num": i}
    if kind == "min":
        return {"key": k}
    if kind == "col_only":
        return {"key": k, "cc": u"only%d" % i}
    if kind == "bad_late":
        # fields are processed in sorted-name order: alpha, body, cc, key are
        # accepted before num overflows its 32 bits
        return {"key": k, "alpha": [u"LEAK%d" % i], "body": u"leaked body %d" % i, "cc": u"leak%d" % i, "num": 2 ** 40}
    if kind == "bad_early":
        return {"key": k, "aa": 2 ** 40, "alpha": [u"never%d" % i], "body": u"never"}
    raise ValueError(kind)


def rej_schema():
    from whoosh import fields
    return fields.Schema(key=fields.ID(stored=True, unique=True), aa=fields.NUMERIC(int, bits=32),
                         alpha=fields.STORED, body=fields.TEXT(stored=True, vector=True),
                         cc=fields.ID(sortable=True), num=fields.NUMERIC(int, bits=32, stored=True, sortable=True))


def rej_case(seq, storage):
    """-> list of (sig, detail)"""
    layout = {"storage": storage}
    st = corpus.open_storage(storage)
    ix = st.create_index(rej_schema())
    res = []
    good = []
    try:
        w = ix.writer()
        for i, kind in enumerate(seq):
            d = rej_doc(kind, i)
            try:
                w.add_document(**d)
                if kind.startswith("bad"):
                    res.append(("rejected|not-rejected", "out-of-range value accepted: %r" % (d,)))
                good.append(d)
            except ValueError:
                if not kind.startswith("bad"):
                    raise
        w.commit()
        with ix.searcher() as s:
            r = s.reader()
            if r.doc_count_all() != len(good):
                res.append(("rejected|doc-count", "seq %r: doc_count_all=%d, %d documents were accepted"
                            % (seq, r.doc_count_all(), len(good))))
            for docnum, d in enumerate(good):
                if docnum >= r.doc_count_all():
                    break
                sf = r.stored_fields(docnum)
                exp = dict((k, v) for k, v in d.items() if k in ("key", "alpha", "body", "num"))
                if sf != exp:
                    extra = sorted(set(sf) - set(exp))
                    res.append(("rejected|stored|%s" % ("leak" if extra else "wrong"),
                                "seq %r: stored fields of %s are %r, supplied %r" % (seq, d["key"], sf, exp)))
                cc = r.column_reader("cc")[docnum] if r.has_column("cc") else u""
                if cc != d.get("cc", u""):
                    res.append(("rejected|column:cc", "seq %r: column cc of %s is %r, supplied %r"
                                % (seq, d["key"], cc, d.get("cc", u""))))
                if "num" in d and r.has_column("num") and r.column_reader("num")[docnum] != d["num"]:
                    res.append(("rejected|column:num", "seq %r: column num of %s is %r, supplied %r"
                                % (seq, d["key"], r.column_reader("num")[docnum], d["num"])))
                hasvec = r.has_vector(docnum, "body")
                if hasvec != ("body" in d):
                    res.append(("rejected|vector", "seq %r: has_vector(body) of %s is %r" % (seq, d["key"], hasvec)))
            for t in (u"leaked", u"never"):
                if ("body", t) in r:
                    res.append(("rejected|lexicon", "seq %r: term %r of a rejected document is in the lexicon" % (seq, t)))
    except Exception as e:
        res.append(("rejected|" + exc_kind(e), "seq %r raised %r" % (seq, e)))
    finally:
        corpus.destroy_index(ix)
    return res


def rej_task(t):
    maxlen, nsl, sl = t
    acc = core.Acc()
    i = 0
    for n in range(1, maxlen + 1):
        for seq in itertools.product(REJ_ALPHA, repeat=n):
            i += 1
            if i % nsl != sl:
                continue
            for storage in ("ram", "file"):
                acc.count("evaluations")
                acc.count("rejected_doc_cases")
                if any(k.startswith("bad") for k in seq) and any(not k.startswith("bad") for k in seq):
                    acc.count("distinct_nontrivial")
                for sig, detail in rej_case(list(seq), storage):
                    acc.violation(sig, {"kind": "rej", "seq": list(seq), "storage": storage}, detail)
    return acc.result()


def task(t):
    """Pool entry point: ("col", column-level task) | ("ix", index-level task)."""
    if t[0] == "col":
        return col_task(t[1])
    if t[0] == "rej":
        return rej_task(t[1])
    return ix_task(t[1])


def plan(tier, seed):
    col_tasks, ix_tasks = [], []
    # ---- column level
    for colname in COLSPECS:
        col_tasks.append((tier, ("small", colname), 1, 0))
    for colname in COLSPECS:
        col_tasks.append((tier, ("rows", colname), 1, 0))
    for colname in ("var_off0", "var_off1", "var_off2", "var", "var_nooff"):
        nsl = 1 if tier == "quick" else 6
        for sl in range(nsl):
            col_tasks.append((tier, ("sizes", colname), nsl, sl))
    for colname in ("ref", "ref_d", "ref_f3"):
        nsl = 8 if tier == "quick" else 12
        for sl in range(nsl):
            col_tasks.append((tier, ("refbig", colname), nsl, sl))
    # ---- index level
    full = all_layouts(tier)
    quickl = all_layouts("quick")
    for famname in families():
        rots = family_rotations(famname, tier)
        n = max(rots) + 1
        for ri, rot in enumerate(rots):
            rot = rot if ri == 0 else (rot + seed) % n
            if ri == 0:
                if tier == "quick":
                    items = []
                    for j, lay in enumerate(full):
                        if lay["final"] == "none" and not lay.get("deleted"):
                            items.append((lay, STORAGES))
                        else:
                            a = (j + seed) % 6
                            items.append((lay, [STORAGES[a], STORAGES[(a + 2) % 6], STORAGES[(a + 4) % 6]]))
                else:
                    items = [(lay, STORAGES) for lay in full]
            else:
                items = [(lay, STORAGES) for lay in (REDUCED if tier == "quick" else quickl)]
            for ch in chunks(items):
                ix_tasks.append((famname, rot, ch, [False]))
        if tier != "quick" or famname in KS_FAMILIES:
            items = [(lay, STORAGES) for lay in (REDUCED if tier == "quick" else quickl)]
            for ch in chunks(items):
                ix_tasks.append((famname, rots[0], ch, [True]))
    return col_tasks, ix_tasks


def run(ctx):
    col_tasks, ix_tasks = plan(ctx.tier, ctx.seed)
    fam = families()
    ctx.rule = (
        "column level: one case = (column type and parameters, row count N, set of rows that get a value, "
        "value assignment, file back-end, base position); all assignments of {no value, edge values incl. the "
        "value equal to the default} to N<=3 (thorough 4) rows, N in {255,256,257} x 12 sparse row patterns x "
        "{edge values cycled, all values distinct}, RefBytesColumn with 65534..65537 distinct values dense / "
        "sparse / repeated, VarBytesColumn with write_offsets_cutoff 0/1/2/default and every sequence of <=3 "
        "(thorough 4) value sizes from {none,0,1,255,256,257,32767,32768,65535,65536,70000} with and without a "
        "trailing empty row; read through reader[i], iter(reader), reader.load()[i]. index level: one case = "
        "(field family, value rotation, presence pattern over 4 docs, segment composition, final step "
        "none/optimize/merging last commit, deleted doc, storage, compound or loose); each index is read "
        "through stored_fields, document(), all_stored_fields, Hit.fields, Hit[f], per-segment and whole-index "
        "column_reader()[doc] and iteration, and (file builds) re-opened without mmap and copied to RAM. "
        "evaluations = column round trips + index readings; non-trivial = at least one row / document carries "
        "a value; cases enumerated without repetition. rejected documents: every sequence of <=3 (thorough 4) "
        "add_document calls from {full, key only, column only, rejected late (earlier stored fields/columns/"
        "vectors already accepted), rejected early} in one writer: accepted documents must carry exactly what "
        "was supplied and rejected ones leave no trace")
    ctx.assumptions = [
        "documents are identified by an indexed unique key (searcher.document_number), never by position",
        "absent column values must read as the documented default of the column type (b'' / zero bytes / the "
        "default= argument / False / None / []); for NUMERIC the translated default of the field "
        "(field default= argument, else the largest representable number); DATETIME and float NUMERIC have "
        "no decodable default documented, there the read only must not raise",
        "a _stored_<f> override replaces the value both in the stored dict and in the field's column "
        "(writing.py: 'custom value for stored field/column'); it is only supplied together with the field",
        "floats compare by IEEE equality (-0.0 == 0.0, NaN == NaN for this purpose); NumericColumn('f') is "
        "only given float32-representable values",
        "RefBytesColumn: values after the 65535th distinct non-default value read back as the default "
        "(documented) and a warning is issued",
        "Hit[f] for a non-stored sortable field is compared with what reader.column_reader(f)[docnum] "
        "returned; the whole-index column reader is compared with the per-segment readers",
        "CompressedBlockColumn and ClampedNumericColumn are labelled experimental by the library: their "
        "failures are grouped under one '(experimental)' signature each",
    ]
    ctx.extra["column_types"] = sorted(COLSPECS)
    ctx.extra["field_families"] = dict((k, [c.name for c in v]) for k, v in fam.items())
    ctx.extra["layouts_full"] = len(all_layouts(ctx.tier))
    ctx.extra["column_tasks"] = len(col_tasks)
    ctx.extra["index_tasks"] = len(ix_tasks)
    ctx.extra["not_covered"] = ["offsets or lengths above 2^31 (2 GB of column data)",
                                "more than 4 documents at index level",
                                "tz-aware datetimes, list values for sortable fields"]
    # big column cases first (longest tasks), then simplest-first
    big = [t for t in col_tasks if t[1][0] == "refbig"]
    rest = [t for t in col_tasks if t[1][0] != "refbig"]
    rej = [("rej", (3 if ctx.tier == "quick" else 4, 8, sl)) for sl in range(8)]
    ctx.pmap(task, [("col", t) for t in big + rest] + [("ix", t) for t in ix_tasks] + rej)
    need = ["refbytes_short_refs", "refbytes_dropped_value_warnings", "varbytes_offsets_array_read",
            "varbytes_offsets_wider_than_16bit", "column_cases_with_padding", "multi_segment_readers",
            "segment_lacks_column", "hit_column_fallbacks", "file_storage_builds"]
    for k in need:
        if not ctx.counters.get(k):
            raise core.HarnessError("vacuous: counter %s is zero" % k)


def replay(case):
    core.setup_process(0)
    if case["kind"] == "rej":
        res = rej_case(case["seq"], case["storage"])
        return {"ok": not res, "what": res}
    if case["kind"] == "col":
        return replay_col(case)
    return replay_ix(case)
