"""C12 - quality bounds are true upper bounds on scores.

E1 outer loop: index variants (block limit 1..3, one and several segments,
deletions) x weighting models x matcher objects (query trees of depth <= 2
over the universe corpus U(6) with decorated frequencies/lengths, boosts,
3-clause Or -> ArrayUnionMatcher, DisjunctionMax, Require, AndNot, AndMaybe,
MultiMatcher through a top-level searcher, directly constructed
array/preloaded/filter/wrapping/constant-score/coordination matchers).

E4 inner loop: explicit-state BFS over call programs {next, skip_to(t),
copy, replace(0)} on the REAL matcher (states merged by the generic digest of
the object graph + model position).  In every distinct state in which the
matcher reports supports_block_quality():

 (a) block_quality() >= score of the current entry; for a term's posting
     list (W3LeafMatcher / inlined ListMatcher, also under boost / filter /
     multi-segment wrappers): >= the score of every entry of the list model
     up to the leaf's block_max_id();
 (b) max_quality() >= every remaining score;
 (c) for every threshold q in {distinct remaining scores, every bound the
     matcher itself reports for the remaining entries, (in states at most one
     call away from the fresh matcher) the bounds reported by its sub-matchers
     alone and shifted by their siblings' max quality, the midpoints between
     neighbours of all these, 0, -1, max+1}:
       skip_to_quality(q) on a COPY, then a next()-only traversal: the ids
       seen are a subsequence of the remaining list and every remaining entry
       scoring > q is still there with its score;
       replace(q) on a COPY, then a next()-only traversal: same demands;
       replace(q) followed by skip_to_quality(q) on the replacement (what the
       top-N collector does): same demands.
     (Entries scoring <= q may be dropped or - inside additive matchers -
     reported without the contribution of a dropped posting; that is the
     optimisation.  They may never be reported with a HIGHER score.)

Pure-function side conditions (task kind "pure"): length_to_byte /
byte_to_length monotone over 0..110000 / 0..255; every scorer that claims
quality support is monotone (weight up, length down) on the grid of stored
values, which is what WeightLengthScorer.block_quality relies on.
"""
import time

from mc import core, corpus, qast, mbfs
from mc.checks.c01 import children, top_shape, NARY, BINOPS
from mc.checks.c05 import weighting

PID = "C12"
LEVEL = "model_checking"
D = 6
TOL = 1e-9
RED = [0b111111, 0b101010, 0b010101, 0b000111, 0b111000, 0b100001,
       0b001100, 0b011110, 0b000001, 0b100000, 0b110011, 0b010010]
W_CLAIM = ["bm25", "bm25_b0", "bm25_b1", "bm25_fieldb", "tfidf", "freq", "dfree", "multi"]
W_NOCLAIM = ["pl2", "reverse", "function"]
WTERMS = ["a", "ab", "b", "ca"]
# states reached by programs up to this length also use the bounds reported
# by the sub-matchers as thresholds
HEAVY_DEPTH = 1
# replace(q) followed by skip_to_quality(q): in every state (thorough) or in
# the states within HEAVY_DEPTH calls (quick); set per task
COMBO_ALL_STATES = False


# --------------------------------------------------------------------------
# objects

def T(m):
    return ["term", "s", corpus.sterm(m)]


def WT(x):
    return ["term", "w", x]


def build_query(ast):
    """qast ASTs plus ["orscale", kids, scale] (Or with a coordination
    bonus -> CoordMatcher)."""
    if ast[0] == "orscale":
        from whoosh import query as Q
        return Q.Or([build_query(x) for x in ast[1]], scale=ast[2])
    return qast.to_whoosh(ast)


def make_factory(spec, s):
    """spec -> zero-argument function building a fresh matcher on searcher s."""
    from whoosh import matching
    ctx = s.context()
    kind = spec["kind"]
    if kind == "query":
        q = build_query(spec["ast"])
        return lambda: q.matcher(s, ctx)
    name = spec["name"]
    subs = [build_query(a) for a in spec.get("asts", [])]
    dc = s.doc_count_all()
    boost = spec.get("boost", 1.0)
    if name == "arrayunion":
        ps = spec["partsize"]
        return lambda: matching.ArrayUnionMatcher([q.matcher(s, ctx) for q in subs], dc,
                                                  boost=boost, partsize=ps)
    if name == "preloaded":
        return lambda: matching.PreloadedUnionMatcher([q.matcher(s, ctx) for q in subs], dc,
                                                      boost=boost)
    if name == "filter":
        ids = frozenset(spec["ids"])
        ex = spec["exclude"]
        return lambda: matching.FilterMatcher(subs[0].matcher(s, ctx), ids, exclude=ex, boost=boost)
    if name == "wrap":
        return lambda: matching.WrappingMatcher(subs[0].matcher(s, ctx), boost)
    if name == "constwrap":
        sc = spec["score"]
        return lambda: matching.ConstantScoreWrapperMatcher(subs[0].matcher(s, ctx), sc)
    if name == "coord":
        sc = spec["scale"]
        return lambda: matching.CoordMatcher(subs[0].matcher(s, ctx), scale=sc)
    raise ValueError(spec)


def Q(ast):
    return {"kind": "query", "ast": ast}


def rotated(seed):
    """The representative posting-list alignments, bits rotated by the seed
    (an equally complete variant of the scope)."""
    k = seed % D
    full = (1 << D) - 1
    return [((m << k) | (m >> (D - k))) & full for m in RED]


def objects(family, seed=0):
    RED = rotated(seed)
    R8, R6, R4, R3 = RED[:8], RED[:6], RED[:4], RED[:3]
    if family == "leaf":
        for m in range(0, 1 << D):
            yield Q(T(m))
        for m in RED:
            for b in (2.0, 0.5, 0.25):
                yield Q(["boost", T(m), b])
        for x in WTERMS:
            yield Q(WT(x))
            yield Q(["boost", WT(x), 3.0])
        for m in R6:
            yield Q(["const", T(m), 0.7])
            yield Q(["not", T(m)])
        yield Q(["every"])
    elif family in ("two", "two6"):
        R = R8 if family == "two" else R6
        for op in NARY:
            for a in R:
                for b in R:
                    yield Q([op, [T(a), T(b)]])
        for op in BINOPS:
            for a in R:
                for b in R:
                    yield Q([op, T(a), T(b)])
    elif family == "two_all":
        for op in NARY:
            for a in RED:
                for b in RED:
                    yield Q([op, [T(a), T(b)]])
        for op in BINOPS:
            for a in RED:
                for b in RED:
                    yield Q([op, T(a), T(b)])
    elif family == "two_w":
        for a in R6:
            for x in WTERMS:
                for op in NARY:
                    yield Q([op, [T(a), WT(x)]])
                    yield Q([op, [WT(x), T(a)]])
                for op in BINOPS:
                    yield Q([op, T(a), WT(x)])
                    yield Q([op, WT(x), T(a)])
    elif family == "boost":
        for a in R6:
            for b in R6:
                for ba, bb in ((2.0, 1.0), (0.5, 1.0), (1.0, 3.0), (0.25, 4.0)):
                    for op in NARY:
                        yield Q([op, [["boost", T(a), ba], ["boost", T(b), bb]]])
                for op in BINOPS:
                    yield Q([op, ["boost", T(a), 0.5], ["boost", T(b), 2.0]])
                for op in NARY:
                    yield Q(["boost", [op, [T(a), T(b)]], 0.5])
                    yield Q(["boost", [op, [T(a), T(b)]], 2.0])
                for op in BINOPS:
                    yield Q(["boost", [op, T(a), T(b)], 0.5])
                    yield Q(["boost", [op, T(a), T(b)], 2.0])
    elif family == "and3":
        # nested intersections (a 3-clause And is a tree of two) over all
        # triples of the representative alignments
        for a in RED:
            for b in RED:
                for c in RED:
                    yield Q(["and", [T(a), T(b), T(c)]])
    elif family == "three":
        for op in NARY:
            for a in R6:
                for b in R6:
                    for c in R6:
                        yield Q([op, [T(a), T(b), T(c)]])
    elif family in ("nested", "nested4"):
        RN = R3 if family == "nested" else R4
        for outer in NARY:
            for inner in NARY + ("not",) + BINOPS:
                for a in RN:
                    for b in RN:
                        for c in RN:
                            if inner == "not":
                                i = ["not", T(b)]
                            elif inner in NARY:
                                i = [inner, [T(b), T(c)]]
                            else:
                                i = [inner, T(b), T(c)]
                            yield Q([outer, [T(a), i]])
                            if inner == "not":
                                break
        for outer in BINOPS:
            for inner in NARY:
                for a in RN:
                    for b in RN:
                        for c in RN:
                            yield Q([outer, [inner, [T(a), T(b)]], T(c)])
                            yield Q([outer, T(a), [inner, [T(b), T(c)]]])
        # 3-clause Or with a compound clause: ArrayUnionMatcher over a
        # sub-matcher whose own children run out
        for inner in NARY + BINOPS:
            for a in R3:
                for b in R3:
                    for c in R3:
                        for d in R3:
                            if inner in NARY:
                                i = [inner, [T(a), T(b)]]
                            else:
                                i = [inner, T(a), T(b)]
                            yield Q(["or", [i, T(c), T(d)]])
        for a in R4:
            for b in R4:
                yield Q(["and", [["const", T(a), 0.7], T(b)]])
                yield Q(["or", [["const", T(a), 0.7], T(b)]])
                yield Q(["andnot", T(b), ["const", T(a), 0.7]])
                yield Q(["require", T(b), ["const", T(a), 0.7]])
                yield Q(["andmaybe", T(b), ["const", T(a), 0.7]])
    elif family == "direct":
        for a in R6:
            for b in R6:
                for ps in (2, 3):
                    yield {"kind": "direct", "name": "arrayunion", "asts": [T(a), T(b)], "partsize": ps}
                yield {"kind": "direct", "name": "preloaded", "asts": [T(a), T(b)]}
        for a in R4:
            for b in R4:
                for bo in (0.5, 2.0):
                    yield {"kind": "direct", "name": "arrayunion", "asts": [T(a), T(b)], "partsize": 2,
                           "boost": bo}
                    yield {"kind": "direct", "name": "preloaded", "asts": [T(a), T(b)], "boost": bo}
                for c in R4:
                    yield {"kind": "direct", "name": "arrayunion", "asts": [T(a), T(b), T(c)], "partsize": 2}
                    for inner in ("and", "or"):
                        for ps in (2, 2048):
                            yield {"kind": "direct", "name": "arrayunion",
                                   "asts": [[inner, [T(a), T(b)]], T(c)], "partsize": ps}
        for a in R6:
            for ids in ([0, 1], [2, 3], [1, 3, 5], []):
                for ex in (False, True):
                    for bo in (1.0, 0.5, 2.0):
                        yield {"kind": "direct", "name": "filter", "asts": [T(a)], "ids": ids,
                               "exclude": ex, "boost": bo}
            for bo in (2.0, 0.5, 0.0, -1.0):
                yield {"kind": "direct", "name": "wrap", "asts": [T(a)], "boost": bo}
            for sc in (0.5, 2.0):
                yield {"kind": "direct", "name": "constwrap", "asts": [T(a)], "score": sc}
        for a in R4:
            for b in R4:
                yield Q(["orscale", [T(a), T(b)], 0.5])
                # low child scores: the coordination bonus outweighs the penalty, so
                # the matcher's score exceeds its child's
                yield Q(["orscale", [["boost", T(a), 0.05], ["boost", T(b), 0.1]], 0.9])
                yield {"kind": "direct", "name": "coord", "asts": [["and", [T(a), T(b)]]], "scale": 0.5}
                for c in R3:
                    yield Q(["orscale", [T(a), T(b), T(c)], 0.9])
    else:
        raise ValueError(family)


def spec_children(spec):
    if spec["kind"] == "query":
        a = spec["ast"]
        if a[0] == "orscale":
            return [Q(c) for c in a[1]]
        out = [Q(c) for c in children(a)]
        if a[0] == "boost":
            # binary queries hand their boost down to their operands
            out.extend(Q(["boost", c, a[2]]) for c in children(a[1]))
        return out
    return [Q(a) for a in spec.get("asts", [])]


def shape_of(spec):
    if spec["kind"] == "query":
        a = spec["ast"]
        if a[0] == "orscale":
            return "orscale(%s)" % ",".join("*" for _ in a[1])
        return top_shape(a)
    extra = ""
    if spec["name"] == "wrap":
        b = spec["boost"]
        extra = ":boost" + ("=0" if b == 0 else "<0" if b < 0 else "<1" if b < 1 else ">1")
    elif spec["name"] in ("arrayunion", "preloaded", "filter") and spec.get("boost", 1.0) != 1.0:
        extra = ":boosted"
    return "direct:%s%s" % (spec["name"], extra)


def full_shape(spec):
    if spec["kind"] == "query":
        a = spec["ast"]
        if a[0] == "orscale":
            return "orscale(%s)" % ",".join(qast.shape(x) for x in a[1])
        return qast.shape(a)
    return "%s[%s]" % (shape_of(spec), ",".join(qast.shape(a) for a in spec.get("asts", [])))


# --------------------------------------------------------------------------
# the invariant evaluated in every state

class QViolation(Exception):
    def __init__(self, bound, kind, detail, q=None):
        Exception.__init__(self, "%s/%s: %s" % (bound, kind, detail))
        self.bound = bound
        self.kind = kind
        self.detail = detail
        self.q = q


class ScoreReader(mbfs.Reader):
    def read(self, m, want=None):
        return {"id": m.id(), "score": m.score()}


class Runner(mbfs.ProtocolRunner):
    def enabled(self, with_quality=True):
        ops = []
        if self.pos < len(self.L):
            ops.append(("next",))
            cur = self.L[self.pos]["id"]
            for t in range(cur + 1, self.maxid + 2):
                ops.append(("skip_to", t))
        ops.append(("replace", 0))
        ops.append(("copy",))
        return ops

    def key(self):
        # the matchers that were copied from (kept by the base class for its
        # aliasing check, C11's subject) and the replaced flag (only gates
        # reset(), which is not in this alphabet) do not influence the
        # futures of the current matcher
        return (mbfs.mdigest(self.m), self.pos)


def above(x, q):
    """x > q beyond float noise."""
    return x - q > TOL * max(1.0, abs(x), abs(q))


def leaf_block_end(m):
    """Largest id (in m's id space) of the current posting block when m is a
    term's posting list, possibly under boost/filter/multi-segment wrappers;
    None when m is not such a list."""
    from whoosh import matching
    from whoosh.codec.whoosh3 import W3LeafMatcher
    t = type(m)
    if t is W3LeafMatcher:
        return m.block_max_id()
    if t is matching.ListMatcher:
        if m._scorer is not None and m._ids:
            return m._ids[-1]
        return None
    if t is matching.WrappingMatcher:
        if m.boost > 0:
            return leaf_block_end(m.child)
        return None
    if t is matching.FilterMatcher:
        if m.boost > 0:
            return leaf_block_end(m.child)
        return None
    if t is matching.MultiMatcher:
        if m.is_active():
            e = leaf_block_end(m.matchers[m.current])
            if e is not None:
                return e + m.offsets[m.current]
        return None
    return None


def thresholds(scores, bounds):
    """Every distinct remaining score and every bound the matcher itself
    reports for the remaining entries (a threshold between the best score of
    a block and the block's bound is where a skip can land inside postings
    that are not entries), the midpoints between neighbours, 0, a negative
    value and a value above everything."""
    ds = sorted(set(scores) | set(b for b in bounds if isinstance(b, (int, float))))
    out = []
    prev = None
    for x in ds:
        if prev is not None and above(x, prev):
            out.append((prev + x) / 2.0)
        out.append(x)
        prev = x
    out.extend([0, -1.0, ds[-1] + 1.0])
    res = []
    for x in out:
        if x not in res:
            res.append(x)
    return res


def tree_values(m, factor, depth, out):
    """Bounds reported by the sub-matchers of m in its current state, mapped
    to the scale of the root (boosts along the path) and also shifted by the
    siblings' max quality (additive parents hand `q - sibling.max_quality()`
    down): the places where the answer of skip_to_quality(q)/replace(q) as a
    function of q can change.  Read-only calls, only on active sub-matchers
    that claim support.  Only used to choose thresholds."""
    if depth > 3:
        return
    try:
        kids = list(m.children())
    except Exception:
        return
    b = getattr(m, "boost", None)
    if b is None:
        b = getattr(m, "_boost", 1.0)
    if not isinstance(b, (int, float)) or not b > 0:
        b = 1.0
    f = factor * b
    info = []
    for k in kids:
        try:
            if k.is_active() and k.supports_block_quality():
                info.append((k, k.block_quality(), k.max_quality()))
        except Exception:
            pass
    for i, (k, kb, km) in enumerate(info):
        out.append(kb * f)
        out.append(km * f)
        for j, (k2, kb2, km2) in enumerate(info):
            if i != j:
                out.append((kb + km2) * f)
                out.append((km + km2) * f)
        tree_values(k, f, depth + 1, out)


def fresh_block_qualities(make, n):
    """block_quality() at every entry of a fresh next()-only traversal (None
    where unsupported or failing: only used to choose thresholds)."""
    out = []
    try:
        m = make()
        while m.is_active() and len(out) < n:
            try:
                out.append(m.block_quality() if m.supports_block_quality() else None)
            except Exception:
                out.append(None)
            m.next()
    except Exception:
        pass
    return out + [None] * (n - len(out))


def traverse(c):
    out = []
    guard = 0
    while c.is_active():
        out.append((c.id(), c.score()))
        c.next()
        guard += 1
        if guard > 1000:
            raise QViolation("traverse", "runaway", "matcher never ends")
    return out


def exc_kind(e):
    return "exc:%s@%s" % (type(e).__name__, mbfs.whoosh_where(e))


def check_remaining(bound, q, rem, got, what):
    """rem: list model entries at/after the position; got: (id, score) pairs
    seen by a next()-only traversal after skip_to_quality(q) / replace(q)."""
    truth = dict((e["id"], e["score"]) for e in rem)
    order = [e["id"] for e in rem]
    last = -1
    for i, sc in got:
        if i not in truth:
            raise QViolation(bound, "lands-off-list",
                             "%s: entry id %r is not in the remaining list %r" % (what, i, order), q)
        if i <= last:
            raise QViolation(bound, "order", "%s: ids not increasing: %r" % (what, [g[0] for g in got]), q)
        last = i
    seen = dict(got)
    for e in rem:
        i, sc = e["id"], e["score"]
        if above(sc, q):
            if i not in seen:
                raise QViolation(bound, "lost-above-threshold",
                                 "%s: entry id %r scoring %r > q=%r is gone (remaining %r, seen %r)"
                                 % (what, i, sc, q, [(x["id"], x["score"]) for x in rem], got), q)
            if not mbfs.close(seen[i], sc):
                raise QViolation(bound, "score-changed-above-threshold",
                                 "%s: entry id %r scores %r afterwards, %r before (q=%r)"
                                 % (what, i, seen[i], sc, q), q)
        elif i in seen and above(seen[i], sc):
            raise QViolation(bound, "score-raised",
                             "%s: entry id %r scores %r afterwards, %r before (q=%r)"
                             % (what, i, seen[i], sc, q), q)


def bump(cnt, k, n=1):
    cnt[k] = cnt.get(k, 0) + n


def check_state(runner, prog, cnt, report):
    """Evaluates the invariant in the runner's current state; every failing
    demand is handed to report(bound, kind, detail, q) and the remaining
    demands are still evaluated."""
    m, L, pos = runner.m, runner.L, runner.pos
    try:
        sup = m.supports_block_quality()
    except Exception as e:
        report("supports_block_quality", exc_kind(e), "raised %r" % (e,), None)
        return
    if not sup:
        bump(cnt, "states_without_quality_support")
        return
    bump(cnt, "states_checked")

    def clone():
        """The state again, as an independent object: copy(), or - where
        copy() itself is broken (C11's subject) - a replay of the program."""
        try:
            return m.copy()
        except Exception:
            bump(cnt, "clones_by_replay_because_copy_raised")
            r2 = Runner(runner.make, L, runner.reader, runner.maxid)
            r2.run([op for op in prog if op[0] != "copy"])
            return r2.m

    if pos >= len(L):
        # exhausted matcher: the only call with a defined meaning is replace
        for q in (0, 1.0):
            try:
                act = clone().replace(q).is_active()
            except Exception as e:
                report("replace", exc_kind(e), "replace(%r) on an exhausted matcher raised %r" % (q, e), q)
                continue
            if act:
                report("replace", "active-after-end",
                       "replace(%r) of an exhausted matcher is active" % (q,), q)
        return
    rem = L[pos:]
    cur = rem[0]
    scores = [e["score"] for e in rem]
    # (a) block quality
    bq = None
    try:
        bq = m.block_quality()
    except Exception as e:
        report("block_quality", exc_kind(e), "block_quality() at id %r raised %r" % (cur["id"], e), None)
    if bq is not None:
        if above(cur["score"], bq):
            report("block_quality", "below-current-score",
                   "block_quality()=%r < score()=%r at id %r" % (bq, cur["score"], cur["id"]), None)
        if above(bq, cur["score"]):
            bump(cnt, "bq_strictly_above_score")
        end = leaf_block_end(m)
        if end is not None:
            bump(cnt, "leaf_block_states")
            inblock = [e for e in rem if e["id"] <= end]
            if len(inblock) > 1:
                bump(cnt, "leaf_blocks_with_several_entries")
            for e in inblock[1:]:
                if above(e["score"], bq):
                    report("block_quality", "below-score-in-block",
                           "block_quality()=%r at id %r but id %r of the same posting block "
                           "(block_max_id %r) scores %r" % (bq, cur["id"], e["id"], end, e["score"]), None)
                    break
    # (b) max quality
    mq = None
    try:
        mq = m.max_quality()
    except Exception as e:
        report("max_quality", exc_kind(e), "max_quality() at id %r raised %r" % (cur["id"], e), None)
    mx = max(scores)
    if mq is not None and above(mx, mq):
        worst = [e for e in rem if e["score"] == mx][0]
        report("max_quality", "below-remaining-score",
               "max_quality()=%r at id %r but remaining id %r scores %r"
               % (mq, cur["id"], worst["id"], mx), None)
    # (c) thresholds
    inner = []
    if len(prog) <= HEAVY_DEPTH:
        tree_values(m, 1.0, 0, inner)
        bump(cnt, "states_with_submatcher_thresholds")
    for q in thresholds(scores, runner.bqs[pos:] + [mq, bq] + inner):
        bump(cnt, "threshold_checks")
        # skip_to_quality on a copy
        try:
            c = clone()
            try:
                c.skip_to_quality(q)
                landed = c.is_active()
                if landed:
                    lid, lsc, lbq = c.id(), c.score(), c.block_quality()
                    lmq = c.max_quality()
                got = traverse(c)
            except QViolation:
                raise
            except Exception as e:
                raise QViolation("skip_to_quality", exc_kind(e),
                                 "skip_to_quality(%r) at id %r (or the traversal after it) raised %r"
                                 % (q, cur["id"], e), q)
            if not got or got[0][0] != cur["id"]:
                bump(cnt, "stq_moved")
            check_remaining("skip_to_quality", q, rem, got,
                            "after skip_to_quality(%r) at id %r" % (q, cur["id"]))
            if landed:
                if above(lsc, lbq):
                    raise QViolation("block_quality", "below-current-score",
                                     "after skip_to_quality(%r) at id %r: block_quality()=%r < score()=%r "
                                     "at id %r" % (q, cur["id"], lbq, lsc, lid), q)
                gm = max(g[1] for g in got)
                if above(gm, lmq):
                    raise QViolation("max_quality", "below-remaining-score",
                                     "after skip_to_quality(%r) at id %r: max_quality()=%r at id %r but a "
                                     "later entry scores %r" % (q, cur["id"], lmq, lid, gm), q)
        except QViolation as v:
            report(v.bound, v.kind, v.detail, v.q)
        # replace on a copy
        try:
            c = clone()
            try:
                r = c.replace(q)
                got = traverse(r)
            except QViolation:
                raise
            except Exception as e:
                raise QViolation("replace", exc_kind(e),
                                 "replace(%r) at id %r (or the traversal after it) raised %r"
                                 % (q, cur["id"], e), q)
            if r is not c:
                bump(cnt, "replace_returned_other_matcher")
            if len(got) < len(rem):
                bump(cnt, "replace_dropped_entries")
            check_remaining("replace", q, rem, got, "after replace(%r) at id %r" % (q, cur["id"]))
        except QViolation as v:
            report(v.bound, v.kind, v.detail, v.q)
        # what the top-N collector does: replace(q), then skip_to_quality(q)
        # on the replacement
        if not (COMBO_ALL_STATES or len(prog) <= HEAVY_DEPTH):
            continue
        try:
            try:
                r = clone().replace(q)
                if r.is_active() and r.supports_block_quality():
                    bump(cnt, "replace_then_skip_checks")
                    r.skip_to_quality(q)
                    got = traverse(r)
                else:
                    got = None
            except QViolation:
                raise
            except Exception as e:
                raise QViolation("replace+skip_to_quality", exc_kind(e),
                                 "replace(%r) then skip_to_quality(%r) at id %r (or the traversal after "
                                 "it) raised %r" % (q, q, cur["id"], e), q)
            if got is not None:
                check_remaining("replace+skip_to_quality", q, rem, got,
                                "after replace(%r) then skip_to_quality(%r) at id %r" % (q, q, cur["id"]))
        except QViolation as v:
            report(v.bound, v.kind, v.detail, v.q)


# --------------------------------------------------------------------------
# BFS (copy of mbfs.bfs with this check's alphabet; the invariant is
# evaluated once per distinct (matcher digest, model position))

def explore(make, maxid, depth, cnt=None):
    """out["violations"]: {(bound, kind): (detail, program, q)} - the first
    (= shortest program) occurrence of every kind of failed demand."""
    out = {"states": 0, "transitions": 0, "executions": 0, "depth": 0, "violations": {},
           "protocol": None, "supported": False, "cls": None}
    cnt = cnt if cnt is not None else {}
    reader = ScoreReader()
    try:
        out["cls"] = type(make()).__name__
        L = mbfs.reference_list(make, reader)
    except Exception as e:
        out["protocol"] = (exc_kind(e), "fresh next()-only traversal raised %r" % (e,), [])
        return out
    ids = [e["id"] for e in L]
    if any(b <= a for a, b in zip(ids, ids[1:])):
        out["protocol"] = ("order", "ids not strictly increasing: %r" % (ids,), [])
        return out
    out["L"] = L
    runner = Runner(make, L, reader, maxid)
    runner.bqs = fresh_block_qualities(make, len(L))
    seen = set()
    checked = set()
    viol = out["violations"]

    def inv(prog, k):
        if k in checked:
            return
        checked.add(k)
        try:
            if runner.pos < len(runner.L) and runner.m.supports_block_quality():
                out["supported"] = True
        except Exception:
            pass

        def report(bound, kind, detail, q):
            if (bound, kind) not in viol:
                viol[bound, kind] = (detail, list(prog), q)
        check_state(runner, prog, cnt, report)

    try:
        runner.fresh()
        out["executions"] += 1
        seen.add(runner.key())
        inv([], runner.key())
    except mbfs.Violation as v:
        out["protocol"] = (v.kind, v.detail, [])
        return out
    frontier = [[]]
    d = 0
    while frontier and d < depth:
        nxt = []
        for prog in frontier:
            try:
                runner.run(prog)
                out["executions"] += 1
                ops = runner.enabled()
            except mbfs.Violation as v:
                out["protocol"] = (v.kind, v.detail, prog)
                return out
            for op in ops:
                p2 = prog + [op]
                out["transitions"] += 1
                try:
                    runner.run(prog)
                    runner.apply(op)
                    out["executions"] += 1
                    k = runner.key()
                except mbfs.Violation as v:
                    out["protocol"] = (v.kind, v.detail, p2)
                    return out
                except Exception as e:
                    if op[0] == "copy":
                        # copy() itself is broken for this class (C11's
                        # subject): the other transitions are still explored
                        bump(cnt, "copy_transitions_dropped_because_copy_raised")
                        out["copy_raises"] = exc_kind(e)
                        continue
                    out["protocol"] = (exc_kind(e), "%r raised %r" % (op, e), p2)
                    return out
                inv(p2, k)
                if k not in seen:
                    seen.add(k)
                    nxt.append(p2)
        d += 1
        frontier = nxt
    out["states"] = len(seen)
    out["checked_states"] = len(checked)
    out["depth"] = d
    out["frontier_left"] = len(frontier)
    return out


def explore_spec(spec, s, depth, cnt=None, cache=None):
    key = None
    if cache is not None:
        key = core.digest(spec)
        if key in cache:
            return cache[key]
    try:
        make = make_factory(spec, s)
        make()
    except Exception as e:
        r = {"states": 0, "transitions": 0, "executions": 0, "depth": 0, "violations": {},
             "supported": False, "cls": None,
             "protocol": (exc_kind(e), "building the matcher raised %r" % (e,), [])}
    else:
        r = explore(make, s.doc_count_all(), depth, cnt)
    if cache is not None:
        cache[key] = r
    return r


def same_cause(vk, violations):
    """The failed demand of a sub-object that explains the failed demand vk
    of the enclosing object: the same one; else the same exception raised at
    the same place (one broken method is reached through several calls); else
    another failure of the same call (a sub-matcher that loses a posting makes
    the parent report a lower score)."""
    if vk in violations:
        return vk
    bound, kind = vk
    for k in sorted(violations):
        if kind.startswith("exc:") and k[1] == kind:
            return k
    for k in sorted(violations):
        if not kind.startswith("exc:") and k[0] == bound:
            return k
    if bound == "replace+skip_to_quality":
        for b in ("skip_to_quality", "replace"):
            for k in sorted(violations):
                if k[0] == b:
                    return k
    return None


def culprit_spec(spec, r, s, depth, vk, cache):
    """Smallest sub-object that still fails for the same cause; returns
    (spec, exploration result, its failed demand)."""
    for c in spec_children(spec):
        rc = explore_spec(c, s, depth, None, cache)
        k = same_cause(vk, rc["violations"])
        if k is not None:
            return culprit_spec(c, rc, s, depth, k, cache)
    return spec, r, vk


def searchers(ix, wname, mode):
    """[(label, searcher)], caller closes the first."""
    s = ix.searcher(weighting=weighting(wname))
    if mode == "leaves":
        return s, [("leaf%d" % i, ls) for i, (ls, off) in enumerate(s.leaf_searchers())]
    return s, [("top", s)]


def task(t):
    if t[0] == "pure":
        return pure_task(t)
    global COMBO_ALL_STATES
    _, seed, layout, wname, mode, family, nsl, sl, depth = t
    COMBO_ALL_STATES = depth >= 4
    acc = core.Acc()
    t0 = time.process_time()
    docs = corpus.universe_docs(D, seed)
    ix, docs = corpus.build_index(docs, layout)
    cnt = {}
    try:
        top, subs = searchers(ix, wname, mode)
        try:
            for label, s in subs:
                cache = {}
                for i, spec in enumerate(objects(family, seed)):
                    if i % nsl != sl:
                        continue
                    r = explore_spec(spec, s, depth, cnt)
                    acc.count("objects")
                    acc.count("states", r["states"])
                    acc.count("transitions", r["transitions"])
                    acc.count("traces_validated_against_impl", r["executions"])
                    acc.count("evaluations", r["executions"])
                    if r["supported"]:
                        acc.count("objects_claiming_quality_support")
                        acc.count("claiming_support:" + wname)
                        if r["states"] > 2:
                            acc.count("distinct_nontrivial")
                    else:
                        acc.count("objects_without_quality_support")
                    if r.get("frontier_left"):
                        acc.count("objects_with_unexplored_frontier")
                    if r.get("copy_raises"):
                        acc.count("objects_whose_copy_raises")
                    if r["protocol"] is not None:
                        # cursor-protocol disagreement: C11's subject; the list
                        # model is meaningless, the object is not judged here
                        acc.count("objects_skipped_cursor_protocol_failure")
                        acc.sample({"skipped": spec, "layout": layout, "weighting": wname,
                                    "protocol": list(r["protocol"][:2])})
                    for vk in sorted(r["violations"]):
                        if vk[0] == "replace+skip_to_quality" and any(
                                k[0] in ("replace", "skip_to_quality") for k in r["violations"]):
                            # the sequence fails because one of its steps does
                            continue
                        cu, rc, vk = culprit_spec(spec, r, s, depth, vk, cache)
                        bound, kind = vk
                        detail, prog, q = rc["violations"][vk]
                        acc.violation(sig_of(cu, rc, wname, bound, kind),
                                      {"seed": seed, "layout": layout, "weighting": wname, "mode": mode,
                                       "searcher": label, "spec": cu, "program": prog, "q": q,
                                       "bound": bound, "kind": kind, "depth": depth, "found_in": spec},
                                      "%s weighting=%s searcher=%s layout=%s program %r: %s"
                                      % (full_shape(cu), wname, label, layout_id(layout), prog, detail))
                    if i % 211 == 5 and r["supported"]:
                        acc.sample({"object": spec, "layout": layout, "weighting": wname,
                                    "searcher": label, "states": r["states"],
                                    "transitions": r["transitions"],
                                    "list": [(e["id"], round(e["score"], 6)) for e in r.get("L", [])]})
        finally:
            top.close()
    finally:
        corpus.destroy_index(ix)
    for k, v in cnt.items():
        acc.count(k, v)
    dt = time.process_time() - t0
    acc.count("cpu_seconds", round(dt, 2))
    if dt > 15:
        acc.count("tasks_over_15_cpu_seconds")
    return acc.result()


def sig_of(cu, rc, wname, bound, kind):
    """Root-cause class: class of the culprit's top matcher (+ the boost
    regime for directly built wrappers), which demand failed and how; for
    exceptions the raise site replaces the demand (one broken method is
    reached from several calls)."""
    cls = rc["cls"] or "?"
    if cu["kind"] == "direct" and cu["name"] == "wrap":
        b = cu["boost"]
        if b == 0:
            cls += "[boost=0]"
        elif b < 0:
            cls += "[boost<0]"
            # one cause (bounds multiplied by a negative factor become lower
            # bounds) fails every demand
            return "%s|%s|bounds|inverted-by-negative-boost" % (cls, wname)
    if kind.startswith("exc:"):
        return "%s|%s|exc|%s" % (cls, wname, kind[4:])
    return "%s|%s|%s|%s" % (cls, wname, bound, kind)


def layout_id(l):
    return "segs=%s,del=%s,bl=%s" % ("+".join(str(x) for x in l["segs"]),
                                    ",".join(str(x) for x in l.get("deleted") or []) or "-",
                                    l.get("blocklimit"))


# --------------------------------------------------------------------------
# pure-function side conditions

class StubPosting(object):
    """A posting block seen through the calls scorers make."""

    def __init__(self, w, maxw):
        self.w = w
        self.maxw = maxw

    def weight(self):
        return self.w

    def id(self):
        return 0

    def block_max_weight(self):
        return self.maxw


def pure_task(t):
    _, seed, part = t
    acc = core.Acc()
    from whoosh.util.numeric import length_to_byte, byte_to_length
    from whoosh import scoring
    if part == "lengths":
        prev = None
        up = down = same = 0
        for x in range(0, 110001):
            b = length_to_byte(x)
            acc.count("evaluations")
            if not (0 <= b <= 255):
                acc.violation("pure|length_to_byte|range", {"pure": "lengths", "x": x},
                              "length_to_byte(%d)=%r outside 0..255" % (x, b))
                break
            if prev is not None and b < prev:
                acc.violation("pure|length_to_byte|not-monotone", {"pure": "lengths", "x": x},
                              "length_to_byte(%d)=%d < length_to_byte(%d)=%d" % (x, b, x - 1, prev))
                break
            prev = b
            y = byte_to_length(b)
            if y > x:
                up += 1
            elif y < x:
                down += 1
            else:
                same += 1
        prevl = None
        for b in range(256):
            y = byte_to_length(b)
            acc.count("evaluations")
            if prevl is not None and y < prevl:
                acc.violation("pure|byte_to_length|not-monotone", {"pure": "lengths", "b": b},
                              "byte_to_length(%d)=%d < byte_to_length(%d)=%d" % (b, y, b - 1, prevl))
                break
            prevl = y
            if length_to_byte(y) != b:
                acc.violation("pure|length_byte|not-idempotent", {"pure": "lengths", "b": b},
                              "length_to_byte(byte_to_length(%d)) = %d" % (b, length_to_byte(y)))
        acc.count("length_roundtrip_rounds_up", up)
        acc.count("length_roundtrip_rounds_down", down)
        acc.count("length_roundtrip_exact", same)
        acc.count("distinct_nontrivial", 110001 + 256)
        return acc.result()
    # scorer monotonicity on the stored grid
    wname = part
    weights = [1.0, 2.0, 3.0, 4.0]
    lengths = sorted(set(byte_to_length(b) for b in range(1, 256)))
    docs = corpus.universe_docs(D, seed)
    ix, docs = corpus.build_index(docs, {"segs": [D], "deleted": [], "blocklimit": 2})
    try:
        with ix.searcher(weighting=weighting(wname)) as s:
            terms = [("s", corpus.sterm(m)) for m in range(1, 1 << D)] + [("w", x) for x in corpus.LEX]
            seen = set()
            for f, text in terms:
                if (f, text.encode("utf8")) not in s.reader():
                    continue
                sc = s.weighting.scorer(s, f, text)
                if not sc.supports_block_quality():
                    acc.count("scorers_without_quality_support")
                    continue
                if isinstance(sc, scoring.WeightLengthScorer):
                    key = tuple(sorted((k, v) for k, v in sc.__dict__.items()
                                       if isinstance(v, (int, float)) and k != "_maxquality"))
                    if key in seen:
                        continue
                    seen.add(key)
                    acc.count("distinct_scorer_parameterisations")
                    bad = grid_monotone(sc._score, weights, lengths, acc)
                    if bad is not None:
                        kind, detail = bad
                        acc.violation("pure|%s|%s" % (wname, kind),
                                      {"pure": wname, "seed": seed, "term": [f, text]},
                                      "%s scorer for %s:%s (%s): %s"
                                      % (type(sc).__name__, f, text, dict(key), detail))
                else:
                    key = (type(sc).__name__, getattr(sc, "idf", None))
                    if key in seen:
                        continue
                    seen.add(key)
                    acc.count("distinct_scorer_parameterisations")
                    for mw in weights:
                        for w in weights:
                            if w > mw:
                                continue
                            acc.count("evaluations")
                            acc.count("distinct_nontrivial")
                            a = sc.score(StubPosting(w, mw))
                            b = sc.block_quality(StubPosting(w, mw))
                            if above(a, b):
                                acc.violation("pure|%s|not-monotone-in-weight" % wname,
                                              {"pure": wname, "seed": seed, "term": [f, text]},
                                              "%s: score(weight %r)=%r > block_quality(max weight %r)=%r"
                                              % (type(sc).__name__, w, a, mw, b))
    finally:
        corpus.destroy_index(ix)
    return acc.result()


def grid_monotone(fn, weights, lengths, acc):
    """The bound of a block is fn(max weight, min length).  It dominates the
    score of every posting (w, l) that can be stored (l >= w: a field is at
    least as long as the occurrences of one term) iff for all stored (w1, l1)
    and all grid points w2 >= w1, l2 <= l1: fn(w1, l1) <= fn(w2, l2).
    M[w2][l2] = max over dominated stored points, by dynamic programming."""
    nl = len(lengths)
    val = {}
    for wi, w in enumerate(weights):
        for li, l in enumerate(lengths):
            try:
                val[wi, li] = fn(w, l)
            except (ValueError, ZeroDivisionError, OverflowError) as e:
                if l >= w:
                    return ("exc:%s" % type(e).__name__,
                            "score(weight=%r, length=%r) raised %r" % (w, l, e))
                val[wi, li] = None
            acc.count("evaluations")
    # M[wi][li] = (max score, witness) over stored points with w<=weights[wi], l>=lengths[li]
    M = {}
    for wi in range(len(weights)):
        for li in range(nl - 1, -1, -1):
            best = None
            if lengths[li] >= weights[wi] and val[wi, li] is not None:
                best = (val[wi, li], (weights[wi], lengths[li]))
            for pw, pl in ((wi - 1, li), (wi, li + 1)):
                if pw >= 0 and pl < nl and M[pw, pl] is not None:
                    if best is None or M[pw, pl][0] > best[0]:
                        best = M[pw, pl]
            M[wi, li] = best
            acc.count("distinct_nontrivial")
            if best is not None:
                v = val[wi, li]
                if v is None or above(best[0], v):
                    w1, l1 = best[1]
                    kind = "not-monotone-in-weight" if l1 == lengths[li] else \
                        "not-monotone-in-length" if w1 == weights[wi] else "not-monotone"
                    return (kind, "score(weight=%r, length=%r)=%r > score(weight=%r, length=%r)=%r, the "
                            "bound of a block holding the former with max weight %r and min length %r"
                            % (w1, l1, best[0], weights[wi], lengths[li], v, weights[wi], lengths[li]))
    return None


# --------------------------------------------------------------------------

def plan(tier, seed):
    A = {"segs": [6], "deleted": [], "blocklimit": 1}
    A2 = {"segs": [6], "deleted": [], "blocklimit": 2}
    A3 = {"segs": [6], "deleted": [], "blocklimit": 3}
    B = {"segs": [6], "deleted": [2, 3], "blocklimit": 2}
    C = {"segs": [6], "deleted": [0], "blocklimit": 3}
    M1 = {"segs": [3, 3], "deleted": [], "blocklimit": 1}
    M2 = {"segs": [2, 2, 2], "deleted": [3], "blocklimit": 2}
    M3 = {"segs": [4, 2], "deleted": [], "blocklimit": 2}
    NA = [A, A2, A3]     # block limits 1..3, no deletions
    DL = [B, C]          # deletions => every leaf sits under a FilterMatcher
    MS = [M1, M2, M3]    # several segments => MultiMatcher leaves
    tasks = []

    def add(layout, w, mode, family, nsl, depth, only=None):
        for sl in range(nsl):
            if only is not None and sl not in [o % nsl for o in only]:
                continue
            tasks.append(("bfs", seed, layout, w, mode, family, nsl, sl, depth))

    if tier == "quick":
        depth = 3
        for wi, w in enumerate(W_CLAIM):
            r = wi + seed
            add(NA[r % 3], w, "top", "leaf", 1, depth)
            add(DL[r % 2], w, "top", "leaf", 1, depth)
            add(MS[r % 3], w, "top", "leaf", 1, depth)
            if w == "bm25":
                continue
            add(NA[(r + 1) % 3], w, "top", "two6", 2, depth)
            add(NA[r % 3], w, "top", "direct", 8, depth, only=[wi, wi + 4])
            add(MS[r % 2], w, "top", "two6", 4, depth, only=[wi, wi + 2])
            add(NA[(r + 2) % 3], w, "top", "boost", 8, depth, only=[wi])
            add(NA[(r + 1) % 3], w, "top", "three", 8, depth, only=[wi + 1])
            add(NA[r % 3], w, "top", "nested", 16, depth, only=[wi, wi + 8])
        for lay in NA:
            add(lay, "bm25", "top", "two", 4, depth)
        add(B, "bm25", "top", "two6", 2, depth)
        add(A, "bm25", "top", "direct", 16, depth)
        add(M3, "bm25", "top", "direct", 16, depth, only=[seed + 2 * i for i in range(8)])
        add(B, "bm25", "top", "direct", 8, depth, only=[seed, seed + 3, seed + 6])
        add(A2, "bm25", "top", "boost", 8, depth)
        add(C, "bm25", "top", "boost", 8, depth, only=[seed, seed + 4])
        add(A, "bm25", "top", "three", 8, depth)
        add(A3, "bm25", "top", "three", 8, depth, only=[seed, seed + 4])
        add(A2, "bm25", "top", "nested", 16, depth)
        add(B, "bm25", "top", "nested", 16, depth, only=[seed, seed + 8])
        add(M1, "bm25", "top", "two6", 4, depth)
        add(M2, "bm25", "top", "two6", 4, depth)
        add(M1, "bm25", "top", "three", 8, depth, only=[seed, seed + 3])
        add(M2, "bm25", "leaves", "two6", 4, depth, only=[seed, seed + 2])
        for li, lay in enumerate(NA):
            add(lay, "tfidf", "top", "and3", 4, depth)
            if li == seed % 3:
                add(lay, "bm25", "top", "and3", 4, depth)
        for w in ("multi", "bm25_fieldb", "bm25"):
            add(A2, w, "top", "two_w", 4, depth)
        for w in W_NOCLAIM:
            add(A2, w, "top", "leaf", 1, depth)
            add(C, w, "top", "two6", 4, depth, only=[seed, seed + 2])
    else:
        depth = 4
        for wi, w in enumerate(W_CLAIM):
            r = wi + seed
            for lay in NA + DL + MS:
                add(lay, w, "top", "leaf", 1, depth)
            add(NA[r % 3], w, "top", "two", 8, depth)
            add(NA[(r + 1) % 3], w, "top", "two_all" if wi % 2 == 0 else "two", 16, depth)
            add(DL[r % 2], w, "top", "two6", 4, depth)
            add(NA[r % 3], w, "top", "direct", 16, depth)
            add(MS[r % 3], w, "top", "two6", 8, depth)
            add(MS[(r + 1) % 3], w, "top", "two6", 8, depth)
            add(M2, w, "leaves", "two6", 8, depth, only=[0, 2, 4, 6] if wi else None)
            add(NA[(r + 2) % 3], w, "top", "boost", 16, depth)
            add(NA[(r + 1) % 3], w, "top", "three", 16, depth)
            add(NA[r % 3], w, "top", "nested4" if w in ("bm25", "tfidf") else "nested", 48, depth)
            add(A2, w, "top", "two_w", 8, depth)
        for lay in NA:
            for w in W_CLAIM:
                add(lay, w, "top", "and3", 4, depth)
        for lay in (B, M1):
            add(lay, "bm25", "top", "nested", 32, depth)
            add(lay, "bm25", "top", "three", 16, depth)
            add(lay, "bm25", "top", "boost", 16, depth)
            add(lay, "bm25", "top", "direct", 16, depth)
        for w in W_NOCLAIM:
            for lay in (A2, C, M2):
                add(lay, w, "top", "leaf", 1, depth)
                add(lay, w, "top", "two6", 4, depth)
    tasks.append(("pure", seed, "lengths"))
    for w in W_CLAIM:
        tasks.append(("pure", seed, w))
    return tasks, depth


def run(ctx):
    tasks, depth = plan(ctx.tier, ctx.seed)
    ctx.extra["bfs_depth"] = depth
    ctx.extra["tasks"] = len(tasks)
    ctx.extra["weightings_claiming_support"] = W_CLAIM
    ctx.extra["weightings_expected_without_support"] = W_NOCLAIM
    ctx.rule = ("for every (index variant of U(6) with decorated frequencies/lengths: block limit 1..3, "
                "one or several segments, deletions) x weighting model x matcher object (families leaf, "
                "two, two_w, boost, three, nested, direct; multi-segment variants through the top-level "
                "searcher => MultiMatcher leaves, and per leaf searcher): BFS over call programs "
                "{next, skip_to(t) t>id, copy, replace(0)} to the depth, states merged by digest of the real "
                "object graph + model position; in every distinct (digest, position) whose matcher reports "
                "supports_block_quality(): block_quality() >= current score (term lists: every score up to "
                "block_max_id), max_quality() >= every remaining score, and for every threshold in {remaining "
                "scores, midpoints, 0, -1, max+1} skip_to_quality(q) and replace(q) on copies keep every "
                "entry scoring > q with its score and show only entries of the remaining list; an object "
                "is non-trivial when it claims support and has more than 2 states; pure tasks: "
                "length_to_byte/byte_to_length monotone (0..110000, 0..255), every supporting scorer "
                "monotone on weights 1..4 x all 255 representable lengths (non-trivial = grid points)")
    ctx.assumptions = ["the list model is the object's own fresh next()-only traversal (C11 decides that "
                       "every call program agrees with it); objects whose cursor protocol fails are counted "
                       "and not judged",
                       "entries scoring <= q may be dropped or reported with a lower score after "
                       "skip_to_quality(q)/replace(q) (additive matchers drop one operand); never higher",
                       "scores compared with relative tolerance 1e-9",
                       "stored postings satisfy field length >= term weight (no field boosts in the corpus)"]
    ctx.pmap(task, tasks)
    merge_weighting_sigs(ctx)
    c = ctx.counters
    for key, least in (("bq_strictly_above_score", 1000), ("stq_moved", 1000),
                       ("replace_returned_other_matcher", 1000), ("replace_dropped_entries", 1000),
                       ("leaf_blocks_with_several_entries", 100), ("states_checked", 10000)):
        if c.get(key, 0) < least:
            raise core.HarnessError("vacuous: %s = %d (< %d)" % (key, c.get(key, 0), least))
    for w in W_CLAIM:
        # (DFree is expected to stop claiming support once its non-monotonic
        # score is acknowledged, as PL2 did)
        if w != "dfree" and not c.get("claiming_support:" + w):
            raise core.HarnessError("vacuous: no object claims quality support under %s" % w)
    ctx.extra["objects_claiming_support_by_weighting"] = dict(
        (w, c.get("claiming_support:" + w, 0)) for w in W_CLAIM + W_NOCLAIM)
    if c.get("objects_with_unexplored_frontier"):
        ctx.extra["note_depth"] = ("%d objects still had unexplored states at the depth bound"
                                   % c["objects_with_unexplored_frontier"])


def merge_weighting_sigs(ctx):
    """A structural defect fails under every weighting model: signatures that
    differ only in the weighting are merged (weighting 'any')."""
    groups = {}
    for sig in list(ctx.viol):
        p = sig.split("|")
        if len(p) != 4 or p[0] == "pure":
            continue
        groups.setdefault((p[0], p[2], p[3]), []).append(sig)
    for (shape, bound, kind), sigs in groups.items():
        if len(sigs) < 2:
            continue
        sigs.sort(key=lambda x: (W_CLAIM + W_NOCLAIM).index(x.split("|")[1]))
        new = "%s|any|%s|%s" % (shape, bound, kind)
        merged = {"count": 0, "cases": [], "what": ctx.viol[sigs[0]]["what"]}
        for sg in sigs:
            v = ctx.viol.pop(sg)
            merged["count"] += v["count"]
            for cse in v["cases"]:
                if len(merged["cases"]) < 3:
                    merged["cases"].append(cse)
        merged["what"] += " [also under: %s]" % ",".join(x.split("|")[1] for x in sigs[1:])
        ctx.viol[new] = merged


def replay(case):
    core.setup_process(case.get("seed", 0))
    if "pure" in case:
        res = pure_task(("pure", case.get("seed", 0), case["pure"]))
        v = res["viol"]
        return {"ok": not v, "what": "; ".join("%s: %s" % (x[0], x[2]) for x in v) or "ok"}
    docs = corpus.universe_docs(D, case.get("seed", 0))
    ix, docs = corpus.build_index(docs, case["layout"])
    try:
        top, subs = searchers(ix, case["weighting"], case.get("mode", "top"))
        try:
            s = dict(subs)[case.get("searcher", "top")]
            r = explore_spec(case["spec"], s, case.get("depth", 3))
            vk = (case.get("bound"), case.get("kind"))
            bad = vk in r["violations"] if vk[0] else bool(r["violations"])
            out = {"ok": not bad and r["protocol"] is None,
                   "states": r["states"], "transitions": r["transitions"],
                   "object": full_shape(case["spec"]), "matcher_class": r["cls"],
                   "list": [(e["id"], e["score"]) for e in r.get("L", [])],
                   "all_failed_demands": ["%s/%s" % k for k in sorted(r["violations"])]}
            if bad:
                k = vk if vk in r["violations"] else sorted(r["violations"])[0]
                detail, prog, q = r["violations"][k]
                out["what"] = "%s/%s after program %r: %s" % (k[0], k[1], prog, detail)
            elif r["protocol"] is not None:
                out["what"] = "cursor protocol failure (C11): %s: %s (program %r)" % r["protocol"]
            else:
                out["what"] = "ok"
            return out
        finally:
            top.close()
    finally:
        corpus.destroy_index(ix)
