"""C01 - search returns exactly the satisfying documents, through every
access path.  E1: bounded-exhaustive differential enumeration on the universe
corpus U(D): every posting-list alignment of every tree up to the bound, every
segment layout and deletion set, every access path, against the reference
evaluator of mc.qast."""
import itertools

from mc import core, corpus, qast

PID = "C01"
LEVEL = "exploration"

BINOPS = ("andnot", "andmaybe", "require")
NARY = ("and", "or", "dismax")


def special_leaves(D):
    L = [["every"], ["everyf", "w"], ["everyf", "n"], ["everyf", "p"],
         ["prefix", "w", "a"], ["prefix", "w", "ab"], ["prefix", "w", ""],
         ["prefix", "w", "zz"],
         ["wild", "w", "a*"], ["wild", "w", "?a*"], ["wild", "w", "*b"],
         ["wild", "w", "c?b"],
         ["regex", "w", "a.*"], ["regex", "w", "(b|c)a?"],
         ["trange", "w", "ab", "b", False, False],
         ["trange", "w", "ab", "b", True, True],
         ["trange", "w", None, "abd", False, True],
         ["trange", "w", "ba", None, True, False],
         ["nrange", "n", -1, 64, False, False],
         ["nrange", "n", -1, 64, True, True],
         ["nrange", "n", None, 0, False, False],
         ["nrange", "n", 5, None, False, False],
         ["nrange", "n", -128, 127, False, False],
         ["drange", "d", "1999-12-31T23:59:59.999999", "2001-01-01T00:00:00.000001", False, False],
         ["drange", "d", "1999-12-31T23:59:59.999999", "2001-01-01T00:00:00.000001", True, True],
         ["drange", "d", None, "2001-01-01T00:00:00.000000", False, False],
         ["drange", "d", "2001-01-01T00:00:00.000000", None, True, False],
         ["fuzzy", "w", "abc", 1, 0], ["fuzzy", "w", "ab", 1, 1],
         ["fuzzy", "w", "cab", 2, 0], ["fuzzy", "w", "b", 1, 0],
         ["phrase", "p", ["x", "y"], 1], ["phrase", "p", ["x", "y"], 2],
         ["phrase", "p", ["y", "x", "y"], 2], ["phrase", "p", ["z", "y"], 1],
         ["phrase", "p", ["x", "y", "z"], 1], ["phrase", "p", ["x", "z"], 3]]
    # fuzzy leaves are only kept where the documented distance (Damerau) and
    # plain Levenshtein agree on the whole lexicon: the automaton/Damerau
    # discrepancy belongs to C19, not here
    out = []
    for l in L:
        if l[0] == "fuzzy":
            if any((qast.damerau(l[2], t) <= l[3]) != (qast.levenshtein(l[2], t) <= l[3])
                   for t in corpus.LEX):
                continue
        out.append(l)
    return out


def term_leaves(D):
    return [["term", "s", corpus.sterm(m)] for m in range(0, 1 << D)]


def trees_depth1(terms, specials, ternary=True):
    """Every tree with one operator over leaves.  Binary over all leaves,
    ternary over term leaves only, Not over all leaves."""
    allv = terms + specials
    for l in allv:
        yield l
    for l in allv:
        yield ["not", l]
    for op in NARY:
        for a in allv:
            for b in allv:
                yield [op, [a, b]]
    for op in BINOPS:
        for a in allv:
            for b in allv:
                yield [op, a, b]
    if ternary:
        for op in NARY:
            for a in terms:
                for b in terms:
                    for c in terms:
                        yield [op, [a, b, c]]


def trees_depth2(leaves):
    """op(op(l,l), l), op(l, op(l,l)), not(op(l,l)), op(not l, l) ..."""
    inner = []
    for op in NARY:
        for a in leaves:
            for b in leaves:
                inner.append([op, [a, b]])
    for op in BINOPS:
        for a in leaves:
            for b in leaves:
                inner.append([op, a, b])
    for a in leaves:
        inner.append(["not", a])
    for i in inner:
        if i[0] != "not":
            yield ["not", i]
    for op in NARY:
        for i in inner:
            for c in leaves:
                yield [op, [i, c]]
                yield [op, [c, i]]
    for op in BINOPS:
        for i in inner:
            for c in leaves:
                yield [op, i, c]
                yield [op, c, i]


def layouts(D, tier):
    """segment compositions x deletion sets x optimise x storage variants"""
    out = []
    comps = corpus.compositions(D)
    if tier == "quick":
        return [{"segs": [D], "deleted": [], "blocklimit": 2},
                {"segs": [D - D // 2, D // 2], "deleted": [0], "blocklimit": 2},
                {"segs": [1, D - 1], "deleted": [1, 2] if D > 3 else [1], "blocklimit": 1,
                 "storage": "file_nommap", "compound": False},
                {"segs": [1] * D, "deleted": [D - 1], "blocklimit": None, "storage": "file"},
                {"segs": [D], "deleted": [1], "optimize": True, "blocklimit": 2}]
    if tier == "mid":
        delsets = [[], [0], [D - 1], [1, 2] if D > 3 else [1]]
    elif tier == "comps":
        delsets = [[1, 2] if D > 3 else [1]]
    else:
        delsets = [list(c) for r in range(0, D) for c in itertools.combinations(range(D), r)]
    for segs in comps:
        for dels in delsets:
            out.append({"segs": segs, "deleted": dels, "blocklimit": 2})
    out.append({"segs": [D], "deleted": [1], "optimize": True, "blocklimit": 2})
    out.append({"segs": [1] * D, "deleted": [0], "blocklimit": None, "storage": "file"})
    out.append({"segs": [D - 1, 1], "deleted": [], "blocklimit": 1, "storage": "file_nommap", "compound": False})
    return out


# ---------------------------------------------------------------------------

PATHS_FULL = ("none", "k1", "k2", "unscored", "sorted", "sorted_k1", "dfq", "terms", "qdocs", "terms_k1")
PATHS_MID = ("none", "k1", "unscored", "sorted_k1", "dfq", "terms")
PATHS_LIGHT = ("none", "k1", "dfq")


def run_path(s, q, path, km=None):
    """Returns (set of keys, reported length or None).  km: docnum -> key."""
    if km is None:
        km = keymap(s)
    if path == "none":
        r = s.search(q, limit=None)
        hits = [km[d] for _, d in r.top_n]
        full = set(km[d] for d in r.docs())
        if len(hits) != len(set(hits)) or set(hits) != full:
            return set(hits) | full | set(["<hits!=docs()>"]), len(r)
        return full, len(r)
    if path in ("k1", "k2"):
        k = int(path[1])
        r = s.search(q, limit=k)
        # limited search: hits are a subset; the *matched set* is reported by
        # docs()/len()
        hits = [km[d] for _, d in r.top_n]
        full = set(km[d] for d in r.docs())
        if len(hits) != len(set(hits)) or not set(hits) <= full:
            return set(hits) | set(["<hit-not-in-docs>"]), len(r)
        if len(hits) != min(k, len(full)):
            return full | set(["<wrong-hit-count:%d>" % len(hits)]), len(r)
        return full, len(r)
    if path == "unscored":
        r = s.search(q, limit=None, scored=False)
        return set(km[d] for _, d in r.top_n), len(r)
    if path == "sorted":
        r = s.search(q, limit=None, sortedby="o")
        return set(km[d] for _, d in r.top_n), len(r)
    if path == "sorted_k1":
        r = s.search(q, limit=1, sortedby="o")
        hits = [km[d] for _, d in r.top_n]
        full = set(km[d] for d in r.docs())
        if not set(hits) <= full or len(hits) != min(1, len(full)):
            return full | set(["<bad-hits>"]), len(r)
        return full, len(r)
    if path == "dfq":
        ks = [km[d] for d in s.docs_for_query(q)]
        if len(ks) != len(set(ks)):
            return set(ks) | set(["<duplicate-docnum>"]), None
        return set(ks), None
    if path == "terms":
        r = s.search(q, limit=None, terms=True)
        return set(km[d] for _, d in r.top_n), len(r)
    if path == "terms_k1":
        r = s.search(q, limit=1, terms=True)
        return set(km[d] for d in r.docs()), len(r)
    if path == "qdocs":
        out = []
        if s.subsearchers:
            for sub, off in s.subsearchers:
                out.extend(d + off for d in q.docs(sub))
        else:
            out.extend(q.docs(s))
        return set(km[d] for d in out), None
    raise ValueError(path)


class KeyMap(dict):
    """docnum -> stored key; a docnum the index should not know maps to a
    marker instead of raising, so the discrepancy is reported as such."""

    def __missing__(self, d):
        return "<docnum:%r>" % (d,)


def keymap(s):
    km = KeyMap()
    r = s.reader()
    for d in range(r.doc_count_all()):
        try:
            km[d] = r.stored_fields(d)["key"]
        except Exception:
            pass
    # deleted documents keep their stored key; tag them so that returning a
    # deleted document is visible
    for d in list(km):
        if r.is_deleted(d):
            km[d] = "<deleted:%s>" % km[d]
    return km


def children(ast):
    k = ast[0]
    if k in NARY:
        return list(ast[1])
    if k in ("not", "boost", "const"):
        return [ast[1]]
    if k in BINOPS:
        return [ast[1], ast[2]]
    return []


def top_shape(ast):
    k = ast[0]
    n = len(children(ast))
    if n == 0:
        return k
    return "%s(%s)" % (k, ",".join("*" * 1 for _ in range(n)))


def outcome(s, model, ast, path, km):
    """(kind, detail) where kind is None when whoosh agrees with the
    reference on this (query, path)."""
    ref = qast.ref_eval(ast, model)
    try:
        q = qast.to_whoosh(ast)
        got, n = run_path(s, q, path, km)
    except Exception as e:
        import traceback
        tb = traceback.extract_tb(e.__traceback__)
        fr = [f for f in tb if "/whoosh/" in f.filename] or list(tb)
        where = "%s:%s" % (fr[-1].filename.split("/")[-1], fr[-1].name)
        return ("exc:%s@%s" % (type(e).__name__, where),
                "raised %r at %s; reference=%s" % (e, where, sorted(ref)))
    if got != ref:
        kind = "extra" if got - ref else "missing"
        if got - ref and ref - got:
            kind = "both"
        return kind, "returned %s, reference %s" % (sorted(got), sorted(ref))
    if n is not None and n != len(ref):
        return "len", "len(results)=%d, reference %d" % (n, len(ref))
    return None, None


def culprit(s, model, ast, path, km):
    """Smallest sub-tree that still disagrees with the reference on this
    path (first failing child, recursively)."""
    for c in children(ast):
        k, _ = outcome(s, model, c, path, km)
        if k is not None:
            return culprit(s, model, c, path, km)
    return ast


def eval_case(s, model, ast, paths, acc, layout_id, D, seed, km=None):
    ref = qast.ref_eval(ast, model)
    acc.count("queries")
    nlive = len(model.live())
    if 0 < len(ref) < nlive:
        acc.count("distinct_nontrivial")
    for path in paths:
        acc.count("evaluations")
        kind, detail = outcome(s, model, ast, path, km)
        if kind is None:
            continue
        cu = culprit(s, model, ast, path, km)
        ck, cdetail = outcome(s, model, cu, path, km)
        acc.violation("%s|%s|%s" % (top_shape(cu), path, ck),
                      {"D": D, "seed": seed, "layout": layout_id, "ast": cu, "path": path,
                       "found_in": ast},
                      "%s via path %s %s" % (qast.shape(cu), path, cdetail))


def gen_queries(D, family):
    terms = term_leaves(D)
    if family == "d1":
        return trees_depth1(terms, special_leaves(D))
    if family == "d1_noternary":
        return trees_depth1(terms, special_leaves(D), ternary=False)
    if family == "d2":
        # depth 2 over term leaves + a few specials
        lv = terms + [["every"], ["prefix", "w", "a"], ["nrange", "n", -1, 64, False, False],
                      ["phrase", "p", ["x", "y"], 2]]
        return trees_depth2(lv)
    if family == "d2_terms":
        return trees_depth2(terms)
    if family == "boost0":
        # clauses whose score is zero or negative: which documents match (and
        # how many len(results) reports under a limit) must not depend on scores
        return boost0_family(terms, D)
    if family == "array":
        # queries executed by ArrayUnionMatcher: 3-clause Or / DisMax-free
        # trees and multi-term expansions (alone, negated, under And/AndNot)
        return array_family(terms, D)
    raise ValueError(family)


def boost0_family(terms, D):
    multi = [l for l in special_leaves(D) if l[0] in ("prefix", "wild", "regex", "trange", "fuzzy", "nrange", "phrase")]
    some = terms[1::4]
    for f in (0.0, -1.0):
        for m in multi + (terms if f == 0.0 else []):
            z = ["boost", m, f]
            yield z
            yield ["not", z]
            for a in (terms if (m in multi and f == 0.0) else some):
                yield ["or", [a, z]]
                yield ["dismax", [a, z]]
                yield ["and", [a, z]]
                yield ["andnot", z, a]
                yield ["andmaybe", a, z]
                yield ["require", z, a]
        for m in multi:
            for a in some:
                for b in some:
                    yield ["or", [a, ["boost", m, f], b]]


def array_family(terms, D):
    multi = [l for l in special_leaves(D) if l[0] in ("prefix", "wild", "regex", "trange", "fuzzy")]
    for a in terms:
        for b in terms:
            for c in terms[::3]:
                yield ["or", [a, b, c]]
    for m in multi:
        yield m
        yield ["not", m]
        for a in terms:
            yield ["and", [a, m]]
            yield ["andnot", a, m]
            yield ["or", [a, m, terms[-1]]]


def phrase_docs(maxlen):
    """Every token sequence of length 1..maxlen over {x, y, z}."""
    out = []
    for n in range(1, maxlen + 1):
        for seq in itertools.product("xyz", repeat=n):
            out.append(list(seq))
    return out


def phrase_task(t):
    """Exhaustive phrase semantics: one index holding every token sequence up
    to length 5 over a 3-word vocabulary (2 segments, one deletion), every
    phrase of 2-3 words x slop 1..3, every access path."""
    seed, layout, maxlen = t
    acc = core.Acc()
    seqs = phrase_docs(maxlen)
    docs = [{"key": "k%d" % i, "live": True, "s": [], "w": [], "p": seq, "n": None, "d": None, "b": None}
            for i, seq in enumerate(seqs)]
    layout = dict(layout)
    n = len(docs)
    layout["segs"] = [n - n // 3, n // 3]
    layout["deleted"] = [1, n - 2]
    ix, docs = corpus.build_index(docs, layout)
    try:
        model = corpus.make_model(docs)
        with ix.searcher() as s:
            km = keymap(s)
            for nwords in (2, 3):
                for words in itertools.product("xyz", repeat=nwords):
                    for slop in (1, 2, 3):
                        ast = ["phrase", "p", list(words), slop]
                        eval_case(s, model, ast, PATHS_MID, acc, layout, "phrase%d" % maxlen, seed, km)
                        acc.count("phrase_cases")
    finally:
        corpus.destroy_index(ix)
    return acc.result()


# ---------------------------------------------------------------------------
# term-expanding patterns: every pattern string up to a length over a small
# alphabet x a lexicon holding every short word

PAT_WORDS = [u"".join(w) for n in (1, 2, 3) for w in itertools.product("abc", repeat=n)]


def pattern_space(maxlen_regex, maxlen_wild):
    """[(kind, pattern)] simplest first.  Regex: every string that compiles;
    wildcard: every string over {a, b, *, ?}; prefix: every word prefix."""
    import re
    import warnings
    out = []
    for n in range(0, 4):
        for t in itertools.product("abc", repeat=n):
            out.append(("prefix", u"".join(t)))
    for n in range(1, maxlen_wild + 1):
        for t in itertools.product("ab*?", repeat=n):
            out.append(("wild", u"".join(t)))
    with warnings.catch_warnings():
        warnings.simplefilter("ignore")
        for n in range(1, maxlen_regex + 1):
            alpha = "ab.*|()?" if n <= maxlen_regex - 1 else "ab|()"
            for t in itertools.product(alpha, repeat=n):
                pat = u"".join(t)
                try:
                    re.compile(pat)
                except Exception:
                    continue
                out.append(("regex", pat))
    return out


def pattern_task(t):
    seed, nsl, sl, maxlen_regex, maxlen_wild = t
    acc = core.Acc()
    words = list(PAT_WORDS)
    rot = seed % len(words)
    words = words[rot:] + words[:rot]
    docs = [{"key": "k%d" % i, "live": True, "s": [], "w": [w] if i % 7 else [w, words[(i * 5) % len(words)]],
             "p": [], "n": None, "d": None, "b": None} for i, w in enumerate(words)]
    n = len(docs)
    layout = {"segs": [n - n // 3, n // 3], "deleted": [2, n - 1], "blocklimit": 2}
    ix, docs = corpus.build_index(docs, layout)
    try:
        model = corpus.make_model(docs)
        with ix.searcher() as s:
            km = keymap(s)
            for i, (kind, pat) in enumerate(pattern_space(maxlen_regex, maxlen_wild)):
                if i % nsl != sl:
                    continue
                ast = [kind, "w", pat]
                ref = qast.ref_eval(ast, model)
                acc.count("pattern_cases")
                if 0 < len(ref) < n - 2:
                    acc.count("distinct_nontrivial")
                for path in ("qdocs", "none"):
                    acc.count("evaluations")
                    k2, detail = outcome(s, model, ast, path, km)
                    if k2 is None:
                        continue
                    feats = "".join(sorted(set(c for c in pat if not c.isalnum())))
                    acc.violation("pattern:%s[%s]|%s|%s" % (kind, feats, path, k2),
                                  {"kind": "pattern", "seed": seed, "ast": ast, "path": path},
                                  "%s %r via path %s %s" % (kind, pat, path, detail))
    finally:
        corpus.destroy_index(ix)
    return acc.result()


class _SmallPartArrayUnion(object):
    """Context manager: Or/multi-term queries build their ArrayUnionMatcher
    with a tiny part size so part boundaries are crossed on a 4-document
    index (the default, 2048, is never crossed by small corpora)."""

    def __init__(self, partsize):
        self.partsize = partsize

    def __enter__(self):
        import whoosh.matching as M
        import whoosh.matching.combo as combo
        self.M, self.combo = M, combo
        self.orig = combo.ArrayUnionMatcher
        ps = self.partsize

        class SmallPart(self.orig):
            def __init__(self, submatchers, doccount, boost=1.0, scored=True, partsize=2048):
                combo_orig_init(self, submatchers, doccount, boost=boost, scored=scored, partsize=ps)
        combo_orig_init = self.orig.__init__
        SmallPart.__name__ = "ArrayUnionMatcher"
        M.ArrayUnionMatcher = SmallPart
        return self

    def __exit__(self, *a):
        self.M.ArrayUnionMatcher = self.orig


def task(t):
    """One (D, seed, layout, query family, slice) unit."""
    if t[0] == "phrase":
        return phrase_task(t[1:])
    if t[0] == "pattern":
        return pattern_task(t[1:])
    D, seed, layout, family, nslices, sl, paths_mode = t
    if layout.get("array_partsize"):
        with _SmallPartArrayUnion(layout["array_partsize"]):
            return _task(t)
    return _task(t)


def _task(t):
    D, seed, layout, family, nslices, sl, paths_mode = t
    acc = core.Acc()
    docs = corpus.universe_docs(D, seed)
    ix, docs = corpus.build_index(docs, layout)
    try:
        model = corpus.make_model(docs)
        with ix.searcher() as s:
            km = keymap(s)
            for i, ast in enumerate(gen_queries(D, family)):
                if i % nslices != sl:
                    continue
                if paths_mode == "mixed":
                    # every path on binary/leaf queries, light paths on the
                    # ternary bulk
                    k = ast[0]
                    paths = PATHS_LIGHT if (k in NARY and len(ast[1]) == 3) else PATHS_MID
                else:
                    paths = PATHS_FULL if paths_mode == "full" else PATHS_LIGHT
                eval_case(s, model, ast, paths, acc, layout, D, seed, km)
                if i % 5000 == 17:
                    acc.sample({"D": D, "layout": layout, "ast": ast,
                                "reference": sorted(qast.ref_eval(ast, model))})
    finally:
        corpus.destroy_index(ix)
    return acc.result()


def run(ctx):
    seed = ctx.seed
    tasks = []
    if ctx.tier == "quick":
        plan = [(4, "d1", "mixed", 8), (3, "d2_terms", "light", 8), (4, "boost0", "mixed", 2)]
    else:
        # (D, family, paths, slices, layout set)
        # sized with VERIF_PROGRESS=1 to ~40 minutes on 16 cores
        plan = [(4, "d1", "full", 8, "quick"),          # every access path
                (4, "d1", "mixed", 8, "mid"),           # 35 index variants, paths rotate over them
                (4, "d1_noternary", "light", 4, "thorough"),  # every deletion subset x composition
                (3, "d2", "mixed", 8, "mid"),
                (4, "d2_terms", "light", 32, "quick"),
                (5, "d1_noternary", "light", 8, "comps"),   # every segment composition of 5 documents
                (4, "boost0", "full", 4, "mid")]
    plan = [p if len(p) == 5 else p + ("quick",) for p in plan]
    nlay = 0
    for D, family, pm, nsl, lset in plan:
        lays = layouts(D, lset)
        nlay += len(lays)
        for lay in lays:
            for sl in range(nsl):
                tasks.append((D, seed, lay, family, nsl, sl, pm))
    # array-union part boundaries (part size forced to 1 / 2) and exhaustive
    # phrase semantics
    for ps in (1, 2):
        for lay in ([{"segs": [4], "deleted": [], "blocklimit": 2}, {"segs": [3, 1], "deleted": [1], "blocklimit": 1}]):
            lay = dict(lay, array_partsize=ps)
            nlay += 1
            for sl in range(4):
                tasks.append((4, seed, lay, "array", 4, sl, "full" if ctx.tier != "quick" else "mixed"))
    for sl in range(16):
        tasks.append(("pattern", seed, 16, sl, 7 if ctx.tier == "quick" else 8, 4 if ctx.tier == "quick" else 5))
    tasks.append(("phrase", seed, {"blocklimit": 2}, 5))
    tasks.append(("phrase", seed, {"blocklimit": None, "storage": "file"}, 3))
    ctx.extra["index_variants"] = nlay
    ctx.extra["plan"] = [list(p) for p in plan]
    ctx.rule = ("every query tree of the stated families over the universe corpus U(D) "
                "(one term per subset of documents => every posting-list alignment) x every "
                "segment composition x deletion family x access path; a case (index variant, "
                "query) is non-trivial when the reference result is neither empty nor all live "
                "documents; cases are enumerated without repetition so each counted case is distinct; family boost0: every "
                "leaf (all terms and the expanding / range / phrase leaves) with boost 0 and -1, alone, negated and beside every "
                "term under Or/DisMax/And/AndNot/AndMaybe/Require and in 3-clause Or, through every access path; plus every "
                "term-expanding pattern: every Regex string that compiles up to length 7 (thorough 8; alphabet "
                "a b . * | ( ) ? below the maximal length, a b | ( ) at it), every Wildcard string up to length 4 (5) over a b * ?, every "
                "Prefix, against a lexicon holding every word of length <= 3 over {a, b, c}")
    ctx.assumptions = ["reference evaluator mc/qast.py states the documented meaning",
                       "documents are identified by their stored unique key",
                       "fuzzy leaves restricted to words where Damerau and Levenshtein agree (C19 covers the rest)"]
    ctx.pmap(task, tasks)


def replay(case):
    core.setup_process(case.get("seed", 0))
    docs = corpus.universe_docs(case["D"], case.get("seed", 0))
    ix, docs = corpus.build_index(docs, case["layout"])
    model = corpus.make_model(docs)
    ref = qast.ref_eval(case["ast"], model)
    q = qast.to_whoosh(case["ast"])
    with ix.searcher() as s:
        try:
            got, n = run_path(s, q, case["path"])
            exc = None
        except Exception as e:
            import traceback
            got, n, exc = None, None, traceback.format_exc()
    ok = exc is None and got == ref and (n is None or n == len(ref))
    return {"ok": ok, "query": repr(q), "reference": sorted(ref),
            "got": None if got is None else sorted(got), "len": n, "exception": exc,
            "what": "ok" if ok else "mismatch"}
