"""C14 - sorting, grouping, collapsing, filtering and paging are exact views
of the results.

E1: bounded-exhaustive enumeration on the real code.  A corpus of D=3..5
documents gets, per sort-key type, *every* assignment documents ->
{missing, v1, v2, v3} (v1 < v2 < v3), is realised under every composition of
D into segments (this contains, by construction, every "no document of this
segment has a value, so the segment has no column file" layout) and a family
of deletion sets.  A universe field ``s`` makes scores, match sets and filter
sets queryable without rebuilding: ``s<mask>`` is present exactly in the
documents of ``mask`` (tf 1), ``c<d0d1..>`` is present in every document with
tf d_i, so under the ``Frequency`` weighting Term("s", "c2413") matches
everything with scores 2,4,1,3.

Families (see plan()): sort (one key; also reader.column_reader / Hit values),
sort2 (two keys, mixed directions, second assignment b), score, group,
collapse, deep (collapse x collapse_order x score permutations x limits),
filter (filter x mask x object form), page, seq (histories: every ordered pair
of operations on one field run on the SAME searcher).

Overlapping facets (allow_overlap=True) are enumerated on multi-valued KEYWORD
fields (plain / vector / stored), on multi-valued NUMERIC (int with the default
precision tiers, int with shift_step=0, float) and DATETIME fields, and on
single-valued NUMERIC / DATETIME / BOOLEAN / ID fields with and without a
column: every value of a document names a group of that document and nothing
else does.

Histories: all observations of a family run on one searcher per index, so a
search is also checked after every search enumerated before it; the seq family
enumerates every ordered pair (op1, op2) of {sort ascending, sort by a reversed
facet, search reversed, two keys with the field reversed, group, collapse,
column_reader} per field kind on a fresh searcher.  What op2 returns must not
depend on op1.  A discrepancy that does not reproduce on a fresh searcher is
reported with the shortest history ("pre") that reproduces it.

Oracle: a plain-Python model.  Order is checked pairwise with the documented
rule only (value order per key, ascending or reversed; document order on ties;
a document without a value after documents with one - demanded only for an
ascending key in a non-reversed search, because that is all facets.rst
promises); groups = partition of the reference match set (missing -> None);
collapse = best N per key of the reference ranking, documents without key
never collapsed; filter/mask = the reference ranking restricted to the set
intersection/difference; page = slice; len(results) = size of the reference
set for every limit.

Violations are reported by the workers as raw groups; the simplest case of
each group is shrunk on the real code (fewer deletions, segments, documents,
parameters, plainer key type) and the signature is taken from the shrunk case:
feature | minimal variant (key type, reversal, mode) | discrepancy kind |
oneseg/multiseg(+deletion).

Development knobs (they mark the run as capped): C14_FAMILIES=sort,page
C14_STRIDE=n.
"""
import datetime
import itertools
import json
import math
import traceback

from mc import core, corpus

PID = "C14"
LEVEL = "exploration"

MISS = None

TXT = ["a", "ab", "b"]
TXW = ["a z", "ab y", "b x"]
NUM = [-3, 0, 8]
FLT = [-1.5, 0.0, 2.25]
DTS = [datetime.datetime(1999, 12, 31, 23, 59, 59, 999999),
       datetime.datetime(2000, 1, 1),
       datetime.datetime(2001, 6, 1)]
BOO = [False, True, True]
KWS = ["x", "y", "x y"]
# RangeFacet("num", -4, 9, 4): buckets (-4,0) (0,4) (4,8) (8,12)
RFB = [(-4, 0), (0, 4), (8, 12)]
DRF_START = datetime.datetime(1999, 1, 1)
DRF_END = datetime.datetime(2002, 1, 1)
DRF_GAP = datetime.timedelta(days=365)
DRB = [(datetime.datetime(1999, 1, 1), datetime.datetime(2000, 1, 1)),
       (datetime.datetime(2000, 1, 1), datetime.datetime(2000, 12, 31)),
       (datetime.datetime(2000, 12, 31), datetime.datetime(2001, 12, 31))]

# multi-valued numeric / date fields: v1 -> [x], v2 -> [y], v3 -> [x, y]
MNUM = [[-3], [70000], [-3, 70000]]
MFLT = [[-1.5], [2.25], [-1.5, 2.25]]
MDTS = [[DTS[0]], [DTS[2]], [DTS[0], DTS[2]]]

# key types backed by one schema field of the same name ("numfc": only in the
# seq family)
FIELD_KTS = ("tc", "txc", "tp", "num", "nump", "numfp", "dt", "dtp", "bo", "numfc")
# field key types that have a column
COLUMN_KTS = ("tc", "txc", "num", "dt")
SEQ_COLUMN_KTS = COLUMN_KTS + ("numfc",)
# overlapping FieldFacet on a multi-valued numeric / date field (own field)
MULTI_KTS = ("nmo", "nmz", "nfo", "dmo")
# overlapping FieldFacet on a single-valued field of another key type
SINGLE_OVERLAP = {"numo": "num", "numpo": "nump", "dtpo": "dtp", "boo": "bo", "tco": "tc"}
# derived key types -> the schema field they read
DERIVED = {"st": "st", "qf": "tp", "qfo": "tp", "rf": "num", "drf": "dt",
           "kw": "kw", "kwv": "kwv", "kws": "kws", "qfov": "kw",
           "nmo": "nmo", "nmz": "nmz", "nfo": "nfo", "dmo": "dmo"}
DERIVED.update(SINGLE_OVERLAP)
OVERLAP_KTS = ("kw", "kwv", "kws", "qfov") + MULTI_KTS + tuple(sorted(SINGLE_OVERLAP))
VALUES = {"tc": TXT, "txc": TXW, "tp": TXT, "num": NUM, "nump": NUM, "numfp": FLT,
          "dt": DTS, "dtp": DTS, "bo": BOO, "st": TXT, "kw": KWS, "kwv": KWS,
          "kws": KWS, "numfc": FLT,
          "nmo": MNUM, "nmz": MNUM, "nfo": MFLT, "dmo": MDTS}


def field_of(kt):
    return kt if kt in FIELD_KTS else DERIVED.get(kt)


def make_field(kt):
    from whoosh import fields
    if kt == "tc":
        return fields.ID(sortable=True)
    if kt == "txc":
        return fields.TEXT(sortable=True)
    if kt == "tp":
        return fields.ID()
    if kt == "num":
        return fields.NUMERIC(int, sortable=True)
    if kt == "nump":
        return fields.NUMERIC(int)
    if kt == "numfp":
        return fields.NUMERIC(float)
    if kt == "dt":
        return fields.DATETIME(sortable=True)
    if kt == "dtp":
        return fields.DATETIME()
    if kt == "bo":
        return fields.BOOLEAN()
    if kt == "st":
        return fields.STORED()
    if kt == "kw":
        return fields.KEYWORD()
    if kt == "kwv":
        return fields.KEYWORD(vector=True)
    if kt == "kws":
        return fields.KEYWORD(stored=True)
    if kt == "numfc":
        return fields.NUMERIC(float, sortable=True)
    if kt == "nmo":
        # the default: 32 bit, shift_step=4, i.e. 8 precision tiers per value
        return fields.NUMERIC(int)
    if kt == "nmz":
        return fields.NUMERIC(int, shift_step=0)
    if kt == "nfo":
        return fields.NUMERIC(float)
    if kt == "dmo":
        return fields.DATETIME()
    raise ValueError(kt)


def sterm(mask):
    return "s%02d" % mask


def cterm(c):
    return "c" + "".join(str(x) for x in c)


def mask_of(docs):
    m = 0
    for i in docs:
        m |= 1 << i
    return m


def c_universe(D, cu):
    out = []
    if cu in ("tern", "full"):
        out.extend(list(c) for c in itertools.product((1, 2, 3), repeat=D))
    if cu in ("perm", "full"):
        for p in itertools.permutations(range(1, D + 1)):
            if list(p) not in out:
                out.append(list(p))
    return out


def default_c(D):
    """a fixed score pattern with distinct scores that is neither document
    order nor its reverse"""
    base = [2, 4, 1, 3, 5]
    if D <= 4:
        r = sorted(base[:D])
        return [r.index(x) + 1 for x in base[:D]]
    return base[:D]


# -------------------------------------------------------------------------
# index construction

def fields_needed(need):
    """need: list of [kt, group]; returns the set of schema field names"""
    out = []
    for kt, g in need:
        f = field_of(kt)
        if f is None:
            continue
        name = "%s%d" % (f, g)
        if name not in out:
            out.append(name)
    return out


def build(ixs):
    """ixs: {"D", "a": [...], "b": [...], "segs", "deleted", "need": [[kt, g]..],
    "cu": none|perm|tern|full, "xc": [c lists]}.  Returns (index, Model)."""
    import random
    from whoosh import fields
    from whoosh.filedb.filestore import RamStorage
    D = ixs["D"]
    a = ixs["a"]
    b = ixs.get("b") or a
    assert len(a) == D and len(b) == D and sum(ixs["segs"]) == D
    random.seed(0)
    fl = {"key": fields.ID(stored=True), "s": fields.KEYWORD(scorable=True)}
    names = fields_needed(ixs["need"])
    for name in names:
        fl[name] = make_field(name[:-1])
    schema = fields.Schema(**fl)
    clists = c_universe(D, ixs.get("cu", "none"))
    for c in ixs.get("xc") or ():
        if list(c) not in clists:
            clists.append(list(c))
    ix = RamStorage().create_index(schema)
    pos = 0
    for n in ixs["segs"]:
        w = ix.writer()
        for i in range(pos, pos + n):
            toks = [sterm(m) for m in range(1, 1 << D) if (m >> i) & 1]
            for c in clists:
                toks.extend([cterm(c)] * c[i])
            d = {"key": "k%d" % i, "s": " ".join(toks)}
            for name in names:
                v = (a, b)[int(name[-1]) - 1][i]
                if v:
                    d[name] = VALUES[name[:-1]][v - 1]
            w.add_document(**d)
        pos += n
        w.commit(merge=False)
    deleted = ixs.get("deleted") or []
    if deleted:
        w = ix.writer()
        for i in deleted:
            w.delete_by_term("key", "k%d" % i)
        w.commit(merge=False)
    return ix, Model(D, a, b, ixs["segs"], deleted)


class Model(object):
    def __init__(self, D, a, b, segs, deleted):
        self.D = D
        self.assign = {1: list(a), 2: list(b)}
        self.segs = list(segs)
        self.deleted = set(deleted)
        self.live = [i for i in range(D) if i not in self.deleted]

    def seg_lacks_value(self, g=1):
        pos = 0
        for n in self.segs:
            if all(self.assign[g][i] == 0 for i in range(pos, pos + n)):
                return True
            pos += n
        return False


def open_searcher(ix, M):
    from whoosh import scoring
    s = ix.searcher(weighting=scoring.Frequency())
    # documents are identified by global docnum == document index; verify
    for docnum in s.reader().all_doc_ids():
        if s.stored_fields(docnum)["key"] != "k%d" % docnum:
            raise core.HarnessError("docnum %d is not document k%d" % (docnum, docnum))
    if sorted(s.reader().all_doc_ids()) != M.live:
        raise core.HarnessError("live documents %r != model %r"
                                % (sorted(s.reader().all_doc_ids()), M.live))
    return s


# -------------------------------------------------------------------------
# facets

def make_facet(kt, g, rev=False, tab=None, **kw):
    from whoosh import sorting, query as Q
    f = "%s%d" % (field_of(kt) or "", g)
    if kt in FIELD_KTS:
        return sorting.FieldFacet(f, reverse=rev, **kw)
    if rev:
        raise ValueError("%s has no reverse option" % kt)
    if kt == "st":
        return sorting.StoredFieldFacet(f, **kw)
    if kt == "sc":
        return sorting.ScoreFacet()
    if kt in ("qf", "qfo"):
        qd = dict(("q%d" % (j + 1), Q.Term(f, TXT[j])) for j in range(3))
        if kt == "qfo":
            kw["other"] = "zz"
        return sorting.QueryFacet(qd, **kw)
    if kt == "rf":
        return sorting.RangeFacet(f, -4, 9, 4, **kw)
    if kt == "drf":
        return sorting.DateRangeFacet(f, DRF_START, DRF_END, DRF_GAP, **kw)
    if kt == "fn":
        table = list(tab)
        return sorting.FunctionFacet(lambda searcher, docid: table[docid], **kw)
    if kt in ("kw", "kwv") or kt in MULTI_KTS or kt in SINGLE_OVERLAP:
        return sorting.FieldFacet(f, allow_overlap=True, **kw)
    if kt == "kws":
        return sorting.StoredFieldFacet(f, allow_overlap=True, **kw)
    if kt == "qfov":
        return sorting.QueryFacet({"hx": Q.Term(f, "x"), "hy": Q.Term(f, "y")},
                                  allow_overlap=True, **kw)
    raise ValueError(kt)


def sort_value(M, kt, g, i, tab=None, c=None):
    """model sort value of document i (an int; MISS when the document has no
    value and the facet has no explicit substitute)"""
    if kt == "sc":
        return 0 - c[i]
    if kt == "fn":
        return tab[i]
    v = M.assign[g][i]
    if kt == "qfo":
        return v if v else 4
    if v == 0:
        return MISS
    if kt == "bo":
        return min(v, 2)
    return v


def group_names(M, kt, g, i, tab=None):
    """list of expected group names of document i"""
    if kt == "fn":
        return [tab[i]]
    v = M.assign[g][i]
    if kt in MULTI_KTS:
        return list(VALUES[kt][v - 1]) if v else [None]
    if kt in SINGLE_OVERLAP:
        return [VALUES[SINGLE_OVERLAP[kt]][v - 1]] if v else [None]
    if kt in OVERLAP_KTS:
        if v == 0:
            return [None]
        terms = KWS[v - 1].split()
        if kt == "qfov":
            terms = ["h" + t for t in terms]
        return terms
    if kt == "qfo":
        return ["q%d" % v if v else "zz"]
    if v == 0:
        return [None]
    if kt == "qf":
        return ["q%d" % v]
    if kt == "rf":
        return [RFB[v - 1]]
    if kt == "drf":
        return [DRB[v - 1]]
    return [VALUES[kt][v - 1]]


def canon_name(kt, name):
    """group names the documentation does not pin down are normalised"""
    if kt in ("bo", "boo") and name in ("t", "f"):
        return name == "t"
    if isinstance(name, tuple):
        return tuple(name)
    return name


# -------------------------------------------------------------------------
# order oracle

def pair_verdict(x, y, keys, orev):
    """keys: list of (values dict/list, reversed?).  Returns (r, reason): r=-1
    x must precede y, r=1 y must precede x, r=0 not determined by the
    documentation."""
    reason = "tie-order"
    r = None
    for vals, rev in keys:
        vx, vy = vals[x], vals[y]
        mx, my = vx is MISS, vy is MISS
        if mx and my:
            reason = "missing-tie-order"
            continue
        if mx or my:
            if rev or orev:
                return 0, "undetermined"
            r = 1 if mx else -1
            reason = "missing-placement"
            break
        if vx == vy:
            continue
        r = -1 if vx < vy else 1
        if rev:
            r = -r
        reason = "order"
        break
    if r is None:
        r = -1 if x < y else 1
    if orev:
        r = -r
    return r, reason


def check_order(obs, expset, keys, orev):
    """obs: observed docnum list; returns None or [(kind, message)..] (one
    entry per kind of violated pair)"""
    if len(set(obs)) != len(obs):
        return [("duplicate", "duplicate documents in %r" % (obs,))]
    extra = [d for d in obs if d not in expset]
    if extra:
        return [("extra-doc", "documents %r are not in the reference set %r (got %r)" % (extra, sorted(expset), obs))]
    lost = [d for d in sorted(expset) if d not in obs]
    if lost:
        return [("missing-doc", "documents %r of the reference set are absent (got %r)" % (lost, obs))]
    bad = []
    for i in range(len(obs)):
        for j in range(i + 1, len(obs)):
            r, reason = pair_verdict(obs[i], obs[j], keys, orev)
            if r == 1 and reason not in [k for k, _ in bad]:
                bad.append((reason, "document %d is before %d in %r but must come after it (%s)" % (
                    obs[i], obs[j], obs, reason)))
    return bad or None


def total_order(docs, keys, orev=False):
    """reference ranking when every pair is determined"""
    import functools

    def cmp(x, y):
        if x == y:
            return 0
        r, _ = pair_verdict(x, y, keys, orev)
        if r == 0:
            raise core.HarnessError("order not total")
        return r
    return sorted(docs, key=functools.cmp_to_key(cmp))


def exc_kind(e):
    tb = traceback.extract_tb(e.__traceback__)
    fr = [f for f in tb if "/whoosh/" in f.filename] or list(tb)
    where = "%s:%s" % (fr[-1].filename.split("/")[-1], fr[-1].name)
    return "exc:%s@%s" % (type(e).__name__, where), "raised %s(%s) at %s line %s" % (
        type(e).__name__, str(e)[:200], where, fr[-1].lineno)


class Out(object):
    """collects (kind, what) discrepancies of one case; first message per kind"""

    def __init__(self):
        self.items = []
        self.info = {}

    def add(self, kind, what):
        if kind not in [k for k, _ in self.items]:
            self.items.append((kind, what))

    def kinds(self):
        return [k for k, _ in self.items]


def engaged(out, r):
    """vacuity evidence: which collector / categorizer classes did the work"""
    c = r.collector
    names = out.info.setdefault("engaged", set())
    while c is not None:
        names.add(type(c).__name__)
        cat = getattr(c, "categorizer", None)
        if cat is not None:
            names.add(type(cat).__name__)
        for cat in (getattr(c, "categorizers", None) or {}).values():
            names.add(type(cat).__name__)
        c = getattr(c, "child", None)


def docnums(r):
    return [d for _, d in r.top_n]


def query_for(p, M):
    from whoosh import query as Q
    mask = p.get("mask")
    c = p.get("c")
    qs = []
    if mask is not None:
        qs.append(Q.Term("s", sterm(mask_of(mask))))
    if c is not None:
        qs.append(Q.Term("s", cterm(c)))
    if not qs:
        return Q.Term("s", sterm((1 << M.D) - 1))
    if len(qs) == 1:
        return qs[0]
    return Q.And(qs)


def match_set(p, M):
    mask = p.get("mask")
    if mask is None:
        return set(M.live)
    return set(M.live) & set(mask)


def score_of(p, i):
    """Frequency score of document i for query_for(p)"""
    sc = 0
    if p.get("mask") is not None or p.get("c") is None:
        sc += 1
    if p.get("c") is not None:
        sc += p["c"][i]
    return float(sc)


def ranking_keys(p, M):
    """keys (for pair_verdict) of the base ranking selected by p["mode"]:
    "scored" -> score descending; "sorted" -> FunctionFacet over p["tab"]"""
    if p.get("mode", "scored") == "scored":
        return [([0 - score_of(p, i) for i in range(M.D)], False)]
    return [(list(p["tab"]), False)]


def ranking_kwargs(p):
    if p.get("mode", "scored") == "scored":
        return {}
    return {"sortedby": make_facet("fn", 1, tab=p["tab"])}


def check_limits(out, run, full, total, limits=(1, 2), what="", len_ok=None):
    """run(limit) -> Results; the limited result must be the prefix of the
    unlimited one, hold at most ``limit`` hits and report the same len()"""
    for k in limits:
        try:
            r = run(k)
            got = docnums(r)
            n = len(r)
        except Exception as e:
            kind, msg = exc_kind(e)
            out.add("limit:" + kind, "%s limit=%d: %s" % (what, k, msg))
            continue
        engaged(out, r)
        if len(got) > k:
            out.add("limit-exceeded", "%s limit=%d returned %d hits %r" % (what, k, len(got), got))
            got = got[:k]
        if got != full[:k]:
            out.add("limit-prefix", "%s limit=%d gave %r, unlimited search gave %r" % (what, k, got, full))
        if len_ok is not None:
            if n not in len_ok:
                out.add("len", "%s limit=%d: len(results)=%d, expected %s" % (what, k, n, sorted(len_ok)))
        elif n != total:
            out.add("len", "%s limit=%d: len(results)=%d but %d documents match" % (what, k, n, total))


# -------------------------------------------------------------------------
# observations, one function per feature.  Each returns an Out.

def obs_sort(s, M, p):
    """p: {"keys": [[kt, g, rev]..], "orev": bool, "tab": [...]|None,
    "c": [...]|None, "form": "name"|"facet"|"list"|"multi"}"""
    from whoosh import sorting
    out = Out()
    q = query_for(p, M)
    keys = p["keys"]
    tab = p.get("tab")
    c = p.get("c")
    exp = match_set(p, M)
    okeys = []
    for kt, g, rev in keys:
        okeys.append(([sort_value(M, kt, g, i, tab, c if c is not None else [1] * M.D)
                       for i in range(M.D)], bool(rev)))
    form = p.get("form", "facet")
    if not keys:
        sortedby = None
        okeys = [([0 - score_of(p, i) for i in range(M.D)], False)]
    elif form == "name":
        sortedby = "%s%d" % (field_of(keys[0][0]), keys[0][1])
    elif form == "facet":
        sortedby = make_facet(keys[0][0], keys[0][1], keys[0][2], tab)
    elif form == "list":
        sortedby = [make_facet(kt, g, rev, tab) for kt, g, rev in keys]
    else:
        mf = sorting.MultiFacet()
        for kt, g, rev in keys:
            if kt in FIELD_KTS:
                mf.add_field("%s%d" % (kt, g), reverse=bool(rev))
            elif kt == "sc":
                mf.add_score()
            else:
                mf.add_facet(make_facet(kt, g, rev, tab))
        sortedby = mf
    orev = bool(p.get("orev"))

    def run(limit):
        kw = {"limit": limit}
        if sortedby is not None:
            kw["sortedby"] = sortedby
        if orev:
            kw["reverse"] = True
        return s.search(q, **kw)
    try:
        r = run(None)
        full = docnums(r)
        n = len(r)
    except Exception as e:
        out.add(*exc_kind(e))
        return out
    for kind, msg in check_order(full, exp, okeys, orev) or ():
        out.add(kind, msg)
    engaged(out, r)
    if n != len(exp):
        out.add("len", "len(results)=%d but %d documents match" % (n, len(exp)))
    if r.scored_length() != len(full):
        out.add("scored_length", "scored_length()=%d, %d hits" % (r.scored_length(), len(full)))
    if not p.get("nolimits"):
        check_limits(out, run, full, len(exp))
    out.info["nontrivial"] = len(exp) >= 2 and full != sorted(full)
    return out


def obs_group(s, M, p):
    """p: {"kt", "mode", "c", "tab", "maptype": None|count|unordered|best,
    "form": facet|name|dict|multi, "limit": None|int, "F": [...]|None}"""
    from whoosh import sorting
    out = Out()
    kt = p["kt"]
    q = query_for(p, M)
    exp = match_set(p, M)
    F = p.get("F")
    if F is not None:
        exp = exp & set(F)
    rkeys = ranking_keys(p, M)
    ranking = total_order(exp, rkeys)
    maptype = {None: None, "count": sorting.Count, "unordered": sorting.UnorderedList,
               "best": sorting.Best, "ordered": sorting.OrderedList}[p.get("maptype")]
    kw = dict(ranking_kwargs(p))
    kw["limit"] = p.get("limit")
    if F is not None:
        kw["filter"] = set(F)
    form = p.get("form", "facet")
    fkw = {}
    if maptype is not None and form == "facet":
        fkw["maptype"] = maptype
    elif maptype is not None:
        kw["maptype"] = maptype
    gtab = p.get("gtab")
    if form == "name":
        kw["groupedby"] = "%s1" % kt
        gname = "%s1" % kt
    elif form == "dict":
        kw["groupedby"] = {"G": make_facet(kt, 1, tab=gtab, **fkw)}
        gname = "G"
    elif form == "pair":
        # two facets in one search: the one under test and a second one
        fs = sorting.Facets()
        fs.add_facet("G", make_facet(kt, 1, tab=gtab))
        fs.add_field("tp1")
        kw["groupedby"] = fs
        gname = "G"
    else:
        kw["groupedby"] = make_facet(kt, 1, tab=gtab, **fkw)
        gname = None
    try:
        r = s.search(q, **kw)
        hits = docnums(r)
        groups = r.groups(gname) if gname else r.groups()
        n = len(r)
    except Exception as e:
        out.add(*exc_kind(e))
        return out
    engaged(out, r)
    if F is not None and len(F) == 0 and hits:
        out.add("empty-filter-ignored", "filter=set() returned %r" % (hits,))
        return out
    # expected groups: name -> list in ranking order
    expg = {}
    for i in ranking:
        for name in group_names(M, kt, 1, i, gtab):
            expg.setdefault(name, []).append(i)
    obsg = {}
    for name, val in groups.items():
        obsg[canon_name(kt, name)] = val
    mt = p.get("maptype")
    if mt == "count":
        expv = dict((k, len(v)) for k, v in expg.items())
    elif mt == "best":
        expv = dict((k, v[0]) for k, v in expg.items())
    elif mt == "unordered":
        expv = dict((k, sorted(v)) for k, v in expg.items())
        obsg = dict((k, sorted(v)) for k, v in obsg.items())
    else:
        expv = expg
    if obsg != expv:
        kind = "groups"
        # the frequent special case: only the name of the "missing" group is off
        if None in expv and None not in obsg:
            others = [k for k in obsg if k not in expv]
            if len(others) == 1 and obsg[others[0]] == expv[None] and \
                    all(obsg.get(k) == v for k, v in expv.items() if k is not None):
                kind = "missing-group-name:%r" % (others[0],)
        if kind == "groups":
            if set(obsg) == set(expv) and all(sorted(_aslist(obsg[k])) == sorted(_aslist(expv[k])) for k in expv):
                kind = "group-order"
        out.add(kind, "groups() = %r, expected %r" % (obsg, expv))
    if n != len(exp):
        out.add("len", "len(results)=%d but %d documents match" % (n, len(exp)))
    lim = p.get("limit")
    if lim is not None and len(hits) > lim:
        out.add("limit-exceeded", "groupedby with limit=%d returned %d hits %r" % (lim, len(hits), hits))
        hits = hits[:lim]
    if hits != ranking[:len(hits)] or (lim is None and len(hits) != len(ranking)):
        out.add("hits", "hits %r, reference ranking %r" % (hits, ranking))
    out.info["nontrivial"] = len(expg) >= 2
    return out


def _aslist(x):
    return x if isinstance(x, list) else [x]


def ref_collapse(ranking, keyof, N, order):
    """reference: keep a document iff its key is empty (None) or it is among
    the best N of its key (by ``order`` table, lower is better, else by
    ranking position).  Returns (expected list, dropped-per-key counts,
    ambiguous?)"""
    pos = dict((d, n) for n, d in enumerate(ranking))
    bykey = {}
    kept = set()
    for d in ranking:
        name = keyof(d)
        if name is None:
            kept.add(d)
        else:
            bykey.setdefault(name, []).append(d)
    counts = {}
    ambiguous = False
    for name, ds in bykey.items():
        if order is None:
            best = sorted(ds, key=lambda d: pos[d])
        else:
            best = sorted(ds, key=lambda d: (order[d], d))
            if len(ds) > N and order[best[N - 1]] == order[best[N]]:
                ambiguous = True
        kept.update(best[:N])
        if len(ds) > N:
            counts[name] = len(ds) - N
    return [d for d in ranking if d in kept], counts, ambiguous


class _Missing(object):
    def __repr__(self):
        return "<missing>"


_MISSING_KEY = _Missing()


def obs_collapse(s, M, p):
    """p: {"kt", "climit", "order": [...]|None, "mode", "c", "tab", "gtab"}
    order: table for a FunctionFacet collapse_order (lower = better)."""
    out = Out()
    kt = p["kt"]
    q = query_for(p, M)
    exp = match_set(p, M)
    rkeys = ranking_keys(p, M)
    ranking = total_order(exp, rkeys)
    N = p["climit"]
    order = p.get("order")
    gtab = p.get("gtab")

    def keyof(d):
        return group_names(M, kt, 1, d, gtab)[0]
    expected, counts, ambiguous = ref_collapse(ranking, keyof, N, order)
    kw = dict(ranking_kwargs(p))
    kw["collapse"] = make_facet(kt, 1, tab=gtab) if kt not in FIELD_KTS or p.get("form") == "facet" else "%s1" % kt
    kw["collapse_limit"] = N
    if order is not None:
        kw["collapse_order"] = make_facet("fn", 1, tab=order)

    def run(limit):
        return s.search(q, limit=limit, **kw)
    try:
        r = run(None)
        full = docnums(r)
        n = len(r)
        cc = dict((canon_name(kt, k), v) for k, v in r.collapsed_counts.items() if v)
    except Exception as e:
        out.add(*exc_kind(e))
        return out
    out.info["nontrivial"] = len(expected) < len(ranking)
    if ambiguous:
        # ties in the order facet at the cut: any best-N choice is acceptable;
        # only the sizes are checked
        if len(full) != len(expected) or len(set(full)) != len(full) or not set(full) <= exp:
            out.add("collapse-size", "collapsed to %r, expected %d documents like %r" % (full, len(expected), expected))
        return out
    what = "collapse=%s limit %d order=%r" % (kt, N, order)
    if full != expected:
        # classify against the two alternative key semantics seen in the code:
        # (A) every falsy key (0, 0.0, False, "") counts as empty,
        # (B) documents without a value share one real key
        def key_a(d):
            k = keyof(d)
            return k if k else None

        def key_b(d):
            k = keyof(d)
            if k is None and kt not in ("fn", "qfo") and M.assign[1][d] == 0:
                return _MISSING_KEY
            return k

        def key_ab(d):
            k = key_b(d)
            return k if k else None
        kinds = None
        if full == ref_collapse(ranking, key_a, N, order)[0]:
            kinds = ["falsy-key-not-collapsed"]
        elif full == ref_collapse(ranking, key_b, N, order)[0]:
            kinds = ["missing-collapsed"]
        elif full == ref_collapse(ranking, key_ab, N, order)[0]:
            kinds = ["falsy-key-not-collapsed", "missing-collapsed"]
        elif set(full) == set(expected):
            kinds = ["collapse-order"]
        elif set(full) > set(expected):
            kinds = ["collapse-extra"]
        elif set(full) < set(expected):
            kinds = ["collapse-lost"]
        else:
            kinds = ["collapse"]
        for kind in kinds:
            out.add(kind, "%s: got %r, expected %r (ranking %r)" % (what, full, expected, ranking))
        return out
    if cc != counts:
        out.add("collapsed_counts", "%s: collapsed_counts=%r, expected %r (hits %r of ranking %r)" % (
            what, cc, counts, full, ranking))
    len_ok = set([len(exp), len(expected)])
    if n not in len_ok:
        out.add("len", "%s: len(results)=%d, expected %d (after collapsing) or %d (matching)" % (
            what, n, len(expected), len(exp)))
    # same len() whatever the limit
    if not p.get("nolimits"):
        check_limits(out, run, full, None, what=what, len_ok=(set([n]) & len_ok) or len_ok)
    return out


def filter_object(s, form, docs, M):
    """realise the document set ``docs`` in the requested form"""
    from whoosh import query as Q
    from whoosh.idsets import BitSet
    if docs is None:
        return None
    if form == "q":
        return Q.Term("s", sterm(mask_of(docs)))
    if form == "set":
        return set(docs)
    if form == "bitset":
        return BitSet(docs, size=M.D)
    if form == "results":
        return s.search(Q.Term("s", sterm(mask_of(docs))), limit=None)
    if form == "results_sorted":
        return s.search(Q.Term("s", sterm(mask_of(docs))), limit=None, scored=False, sortedby=None)
    raise ValueError(form)


def effectively_empty(form, docs, M):
    """the filter object is an empty container (a query object never is)"""
    if docs is None:
        return False
    if form in ("set", "bitset"):
        return len(docs) == 0
    if form.startswith("results"):
        return not (set(docs) & set(M.live))
    return False


def obs_filter(s, M, p):
    """p: {"F": [...]|None, "M": [...]|None, "ff", "mf", "mode", "c", "tab"}"""
    out = Out()
    q = query_for(p, M)
    base = match_set(p, M)
    F, Mk = p.get("F"), p.get("M")
    exp = set(base)
    if F is not None:
        exp &= set(F)
    if Mk is not None:
        exp -= set(Mk)
    ranking = total_order(base, ranking_keys(p, M))
    expected = [d for d in ranking if d in exp]
    try:
        fobj = filter_object(s, p.get("ff", "set"), F, M)
        mobj = filter_object(s, p.get("mf", "set"), Mk, M)
    except Exception as e:
        raise core.HarnessError("cannot build filter object: %r" % (e,))
    kw = dict(ranking_kwargs(p))
    if F is not None:
        kw["filter"] = fobj
    if Mk is not None:
        kw["mask"] = mobj

    def run(limit):
        return s.search(q, limit=limit, **kw)
    try:
        r = run(None)
        full = docnums(r)
        n = len(r)
        fc = getattr(r, "filtered_count", None)
    except Exception as e:
        out.add(*exc_kind(e))
        return out
    engaged(out, r)
    out.info["nontrivial"] = 0 < len(expected) < len(ranking)
    f_empty = effectively_empty(p.get("ff", "set"), F, M)
    m_empty = effectively_empty(p.get("mf", "set"), Mk, M)
    if full != expected:
        kind = "filter"
        if f_empty and full == [d for d in ranking if Mk is None or d not in Mk]:
            kind = "empty-filter-ignored"
        elif set(full) == set(expected):
            kind = "filter-reordered"
        out.add(kind, "filter=%r(%s) mask=%r(%s): got %r, expected %r (unfiltered ranking %r)" % (
            F, p.get("ff"), Mk, p.get("mf"), full, expected, ranking))
        return out
    if n != len(expected):
        out.add("len", "len(results)=%d, expected %d" % (n, len(expected)))
    if (F is not None or Mk is not None) and fc is not None and fc != len(base) - len(expected):
        out.add("filtered_count", "filtered_count=%r, %d matching documents were filtered out" % (
            fc, len(base) - len(expected)))
    if fc is None and ((F is not None and not f_empty) or (Mk is not None and not m_empty)):
        out.add("filtered_count-absent", "results.filtered_count is not set although a filter/mask was given")
    check_limits(out, run, full, len(expected), what="filter=%r(%s) mask=%r(%s)" % (F, p.get("ff"), Mk, p.get("mf")))
    # the caller's filter / mask objects belong to the caller: a search must
    # neither change them nor leave them unusable for the next search on the
    # same searcher (each object alone, then both again)
    for name, obj, docs, form in (("filter", fobj, F, p.get("ff", "set")), ("mask", mobj, Mk, p.get("mf", "set"))):
        if docs is None or out.kinds():
            continue
        try:
            if form in ("set", "bitset"):
                now = sorted(obj)
                if now != sorted(set(docs)):
                    out.add("argument-mutated:" + name, "the %s object (%s) held %r before the search and %r after it" % (
                        name, form, sorted(set(docs)), now))
                    continue
            elif form.startswith("results"):
                now = sorted(docnums(obj))
                want = sorted(set(docs) & set(M.live))
                if now != want:
                    out.add("argument-mutated:" + name, "the Results object used as %s listed %r before the search and %r after it" % (
                        name, want, now))
                    continue
            alone = docnums(s.search(q, limit=None, **dict(ranking_kwargs(p), **{name: obj})))
        except Exception as e:
            k, w = exc_kind(e)
            out.add("reuse:" + k, "re-using the %s object: %s" % (name, w))
            continue
        if name == "filter":
            exp1 = [d for d in ranking if d in set(docs)]
        else:
            exp1 = [d for d in ranking if d not in set(docs)]
        if alone != exp1:
            out.add("argument-reused:" + name, "the same %s object (%s) used alone in a second search on the searcher: got %r, "
                    "expected %r" % (name, form, alone, exp1))
    if F is not None and Mk is not None and not out.kinds():
        try:
            again = docnums(run(None))
        except Exception as e:
            out.add(*exc_kind(e))
            return out
        if again != expected:
            out.add("argument-reused:both", "the same search repeated with the same objects: got %r, expected %r" % (again, expected))
    return out


def obs_page(s, M, p):
    """p: {"mask": [...]|None, "c", "mode", "tab", "pagenum", "pagelen", "F": [...]|None, "ff"}"""
    out = Out()
    q = query_for(p, M)
    base = match_set(p, M)
    ranking = total_order(base, ranking_keys(p, M))
    F = p.get("F")
    if F is not None:
        ranking = [d for d in ranking if d in set(F)]
    total = len(ranking)
    pagenum, pagelen = p["pagenum"], p["pagelen"]
    kw = dict(ranking_kwargs(p))
    if F is not None:
        kw["filter"] = filter_object(s, p.get("ff", "q"), F, M)
    pagecount = int(math.ceil(total / float(pagelen)))
    out.info["nontrivial"] = total > pagelen
    try:
        page = s.search_page(q, pagenum, pagelen=pagelen, **kw)
    except ValueError as e:
        # search_page's docstring promises ValueError for a page number past
        # the end (ResultsPage's docstring promises clamping instead): both
        # are accepted
        if pagenum > pagecount:
            return out
        out.add(*exc_kind(e))
        return out
    except Exception as e:
        out.add(*exc_kind(e))
        return out
    try:
        eff = min(pagenum, pagecount)
        hits = [h.docnum for h in page]
        obs = {"total": page.total, "len": len(page), "pagecount": page.pagecount,
               "pagenum": page.pagenum, "offset": page.offset, "pagelen": page.pagelen,
               "is_last_page": page.is_last_page()}
        if obs["total"] != total or obs["len"] != total:
            kind = "page-total"
            if F is not None and effectively_empty(p.get("ff", "q"), F, M):
                kind = "empty-filter-ignored"
            out.add(kind, "search_page(%d, pagelen=%d): total=%r len=%r but %d documents match (%r)" % (
                pagenum, pagelen, obs["total"], obs["len"], total, ranking))
            return out
        if total == 0:
            # no page exists; demanded: nothing is on it, and the documented
            # attributes say so (pagelen = number of results on this page,
            # offset = a result number)
            if hits or obs["total"] != 0 or obs["len"] != 0 or obs["pagecount"] != 0 or obs["pagelen"] != 0 \
                    or obs["offset"] < 0 or not obs["is_last_page"]:
                out.add("empty-results-arithmetic", "search_page(%d, pagelen=%d) of an empty result: %r hits %r" % (
                    pagenum, pagelen, obs, hits))
            return out
        offset = (eff - 1) * pagelen
        exphits = ranking[offset:offset + pagelen]
        expd = {"total": total, "len": total, "pagecount": pagecount, "pagenum": eff,
                "offset": offset, "pagelen": len(exphits), "is_last_page": eff == pagecount}
        if hits != exphits:
            out.add("page-slice" if pagenum <= pagecount else "page-past-end-slice",
                    "search_page(%d, pagelen=%d): hits %r, expected %r = ranking %r [%d:%d]" % (
                        pagenum, pagelen, hits, exphits, ranking, offset, offset + pagelen))
        if obs != expd:
            diff = sorted(k for k in expd if obs[k] != expd[k])
            out.add(("page-attrs:" if pagenum <= pagecount else "page-past-end-attrs:") + ",".join(diff),
                    "search_page(%d, pagelen=%d): %r, expected %r" % (pagenum, pagelen, obs, expd))
        if hits == exphits:
            viaidx = [page.docnum(i) for i in range(len(exphits))]
            if viaidx != exphits:
                out.add("page-docnum", "page.docnum(i) gives %r, expected %r" % (viaidx, exphits))
            sc = [page.score(i) for i in range(len(exphits))]
            if p.get("mode", "scored") == "scored":
                expsc = [score_of(p, d) for d in exphits]
                if any(abs(x - y) > 1e-9 for x, y in zip(sc, expsc)):
                    out.add("page-score", "page.score(i) gives %r, expected %r" % (sc, expsc))
            viaget = [page[i].docnum for i in range(len(exphits))]
            if viaget != exphits:
                out.add("page-getitem", "page[i] gives %r, expected %r" % (viaget, exphits))
    except Exception as e:
        out.add(*exc_kind(e))
    return out


def obs_colread(s, M, p):
    """facets.rst "Accessing column values": reader.column_reader(f)[docnum]
    and Hit[f] give the value of the document (checked for documents that
    have one; what a document without a value yields is not demanded)"""
    out = Out()
    kt = p["kt"]
    f = "%s1" % kt
    a = M.assign[1]
    want = dict((i, VALUES[kt][a[i] - 1]) for i in M.live if a[i])
    try:
        cr = s.reader().column_reader(f)
        got = dict((i, cr[i]) for i in M.live)
    except Exception as e:
        kind, msg = exc_kind(e)
        out.add("reader-raises:" + type(e).__name__, msg)
        got = None
    if got is not None:
        bad = dict((i, got[i]) for i in want if got[i] != want[i])
        if bad:
            out.add("column-value", "column_reader(%r)[docnum] gives %r, documents hold %r" % (f, bad, want))
    try:
        hits = dict((h.docnum, h[f]) for h in s.search(query_for(p, M), limit=None) if h.docnum in want)
    except Exception as e:
        kind, msg = exc_kind(e)
        out.add("hit-raises:" + type(e).__name__, msg)
        hits = None
    if hits is not None:
        bad = dict((i, hits.get(i)) for i in want if hits.get(i) != want[i])
        if bad:
            out.add("hit-value", "Hit[%r] gives %r, documents hold %r" % (f, bad, want))
    out.info["nontrivial"] = len(M.segs) > 1 and len(want) < len(M.live) and bool(want)
    return out


def eval_floatcol(p):
    """NUMERIC(float, sortable=True): index 1..3 documents and sort them"""
    from whoosh import fields, query as Q
    from whoosh.filedb.filestore import RamStorage
    out = Out()
    vals = p["vals"]
    try:
        schema = fields.Schema(key=fields.ID(stored=True), x=fields.NUMERIC(float, sortable=True))
        ix = RamStorage().create_index(schema)
        with ix.writer() as w:
            for i, v in enumerate(vals):
                d = {"key": "k%d" % i}
                if v:
                    d["x"] = FLT[v - 1]
                w.add_document(**d)
        with ix.searcher() as s:
            got = docnums(s.search(Q.Every(), sortedby="x", limit=None))
    except Exception as e:
        out.add(*exc_kind(e))
        return out
    keys = [([v if v else MISS for v in vals], False)]
    for kind, msg in check_order(got, set(range(len(vals))), keys, False) or ():
        out.add(kind, msg)
    return out


OBS = {"colread": obs_colread, "sort": obs_sort, "group": obs_group, "collapse": obs_collapse,
       "filter": obs_filter, "page": obs_page}


def observe(s, M, feat, p):
    return OBS[feat](s, M, p)


def evaluate(case):
    """build the index of the case and run its single observation"""
    if case["feat"] == "floatcol":
        return eval_floatcol(case["p"])
    ixs = dict(case["ix"])
    for _, p in all_ops(case):
        c = p.get("c")
        if c is not None and list(c) not in (ixs.get("xc") or []):
            ixs["xc"] = list(ixs.get("xc") or []) + [list(c)]
    ix, M = build(ixs)
    try:
        s = open_searcher(ix, M)
        try:
            # the history: operations the same searcher served before
            for feat, p in case.get("pre") or ():
                perform(s, M, feat, p)
            return observe(s, M, case["feat"], case["p"])
        finally:
            s.close()
    finally:
        ix.close()


def perform(s, M, feat, p):
    """run an operation of a history; what it returns is checked where it is
    the operation under test"""
    try:
        observe(s, M, feat, p)
    except core.HarnessError:
        raise
    except Exception:
        pass


def all_ops(case):
    """[(feat, p)..]: the history of the case, then the operation under test"""
    return [(f, p) for f, p in case.get("pre") or ()] + [(case["feat"], case["p"])]


# -------------------------------------------------------------------------
# signatures and shrinking

def variant_of(feat, p):
    if feat == "sort":
        ks = "+".join("%s%s" % (kt, "-" if rev else "") for kt, g, rev in p["keys"]) or "score"
        return ks + ("/orev" if p.get("orev") else "")
    if feat == "group":
        v = p["kt"]
        if p.get("maptype"):
            v += "/" + p["maptype"]
        if p.get("mode") == "sorted":
            v += "/sorted"
        return v
    if feat == "collapse":
        v = p["kt"]
        if p.get("order") is not None:
            v += "/order"
        if p.get("mode") == "sorted":
            v += "/sorted"
        return v
    if feat == "filter":
        v = []
        if p.get("F") is not None:
            v.append("filter=" + p.get("ff", "set"))
        if p.get("M") is not None:
            v.append("mask=" + p.get("mf", "set"))
        if p.get("mode") == "sorted":
            v.append("sorted")
        return ",".join(v) or "none"
    if feat == "page":
        return p.get("mode", "scored") + ("/filter" if p.get("F") is not None else "")
    if feat == "floatcol":
        return "numf_col"
    if feat == "colread":
        return p["kt"]
    return "-"


def presig(case, kind):
    ps = "%s|%s|%s" % (case["feat"], variant_of(case["feat"], case["p"]), kind)
    if case.get("pre"):
        ps += "|after " + pre_variant(case)
    return ps


def pre_variant(case):
    return "; ".join("%s %s" % (f, variant_of(f, p)) for f, p in case.get("pre") or ())


# discrepancy kinds that identify their cause without the key type
KT_INDEPENDENT = ("falsy-key-not-collapsed", "exc:TypeError@collectors.py:results")


def final_sig(case, kind):
    """signature of a shrunk case: feature | minimal variant | kind | shape"""
    v = variant_of(case["feat"], case["p"])
    if kind in KT_INDEPENDENT:
        v = "any-key"
    if case["feat"] == "colread" and len(case["ix"]["segs"]) > 1:
        v = "column"
    if case.get("pre"):
        # the result depends on what the searcher did before: the culprit is
        # the (shrunk) history
        return "history|%s|%s|%s|after %s|%s" % (case["feat"], v, kind, pre_variant(case), shape(case))
    return "%s|%s|%s|%s" % (case["feat"], v, kind, shape(case))


def simplicity(case):
    ix = case.get("ix") or {}
    return (ix.get("D", 0), len(ix.get("segs", ())), len(ix.get("deleted", ())),
            sum(ix.get("a", ())), len(case.get("pre") or ()), len(repr(case["p"])))


def _drop_doc(case, i):
    """the case without document i (all per-document lists and document sets
    re-indexed); None if not applicable"""
    import copy
    import json
    c2 = json.loads(json.dumps(case))
    ix = c2["ix"]
    D = ix["D"]
    if D <= 1:
        return None
    ix["D"] = D - 1
    ix["a"].pop(i)
    if ix.get("b"):
        ix["b"].pop(i)
    pos = 0
    for n, size in enumerate(ix["segs"]):
        if pos <= i < pos + size:
            ix["segs"][n] -= 1
            break
        pos += size
    ix["segs"] = [x for x in ix["segs"] if x > 0]
    ix["deleted"] = [d - (1 if d > i else 0) for d in ix.get("deleted", []) if d != i]
    xc = []
    for _, p in all_ops(c2):
        for name in ("c", "tab", "order", "gtab"):
            if p.get(name) is not None:
                p[name].pop(i)
        if p.get("c") is not None and list(p["c"]) not in xc:
            xc.append(list(p["c"]))
        for name in ("F", "M", "mask"):
            if p.get(name) is not None:
                p[name] = [d - (1 if d > i else 0) for d in p[name] if d != i]
    ix["cu"] = "none"
    ix["xc"] = xc
    return c2


_DROP = object()


def _mod(case, **kw):
    c2 = json.loads(json.dumps(case))
    for k, v in kw.items():
        if v is _DROP:
            c2["p"].pop(k, None)
        else:
            c2["p"][k] = v
    return c2


def _simpler_kts(kt):
    """plainer key types to try instead of kt: the ID field without column,
    then the plainest sibling with the same storage"""
    out = []
    if kt != "tp":
        out.append("tp")
    sib = {"txc": "tc", "nump": "num", "numfp": "num", "dtp": "dt", "drf": "rf", "qfo": "qf",
           "nmz": "nmo", "nfo": "nmo", "dmo": "dtpo nmo", "nmo": "numpo", "numo": "numpo", "dtpo": "numpo",
           "boo": "numpo", "tco": "numpo"}.get(kt)
    if sib:
        out.extend(sib.split())
    return out


def _p_variants(case):
    """simpler observation parameters: fewer keys, no reversal, default map
    type / mode / form, the plainest key type (ID field without column)"""
    feat, p = case["feat"], case["p"]
    if feat == "sort":
        keys = p["keys"]
        if p.get("orev"):
            yield _mod(case, orev=False)
        if len(keys) > 1:
            for n in range(len(keys)):
                yield _mod(case, keys=[k for m, k in enumerate(keys) if m != n], form="facet")
        for n, (kt, g, rev) in enumerate(keys):
            if rev:
                yield _mod(case, keys=[[k[0], k[1], False] if m == n else k for m, k in enumerate(keys)])
            for sub in _simpler_kts(kt):
                yield _mod(case, keys=[[sub, k[1], k[2]] if m == n else k for m, k in enumerate(keys)])
        if len(keys) == 1 and p.get("form", "facet") != "facet":
            yield _mod(case, form="facet")
        if keys and p.get("c") is not None and not any(k[0] == "sc" for k in keys):
            yield _mod(case, c=_DROP)
    elif feat == "group":
        if p.get("maptype"):
            yield _mod(case, maptype=_DROP)
        if p.get("mode") == "sorted":
            yield _mod(case, mode="scored", tab=_DROP)
        if p.get("limit") is not None:
            yield _mod(case, limit=None)
        if p.get("F") is not None:
            yield _mod(case, F=_DROP)
        if p.get("form", "facet") != "facet":
            yield _mod(case, form="facet")
        for sub in _simpler_kts(p["kt"]):
            yield _mod(case, kt=sub, gtab=_DROP)
    elif feat == "collapse":
        if p.get("order") is not None:
            yield _mod(case, order=None)
        if p.get("mode") == "sorted":
            yield _mod(case, mode="scored", tab=_DROP)
        if p["climit"] > 1:
            yield _mod(case, climit=1)
        if p.get("form"):
            yield _mod(case, form=_DROP)
        for sub in _simpler_kts(p["kt"]):
            yield _mod(case, kt=sub, gtab=_DROP)
    elif feat == "filter":
        if p.get("M") is not None:
            yield _mod(case, M=_DROP, mf=_DROP)
        if p.get("F") is not None:
            yield _mod(case, F=_DROP, ff=_DROP)
        if p.get("mode") == "sorted":
            yield _mod(case, mode="scored", tab=_DROP)
        if p.get("F") is not None and p.get("ff", "set") != "set":
            yield _mod(case, ff="set")
        if p.get("M") is not None and p.get("mf", "set") != "set":
            yield _mod(case, mf="set")
    elif feat == "colread":
        if p["kt"] == "txc":
            yield _mod(case, kt="tc")
    elif feat == "page":
        if p.get("F") is not None:
            yield _mod(case, F=_DROP, ff=_DROP)
            base = p["mask"] if p.get("mask") is not None else list(range(case["ix"]["D"]))
            yield _mod(case, F=_DROP, ff=_DROP, mask=[d for d in base if d in p["F"]])
        if p.get("mode") == "sorted":
            yield _mod(case, mode="scored", tab=_DROP, c=[1] * case["ix"]["D"])
        if p["pagenum"] > 1:
            yield _mod(case, pagenum=p["pagenum"] - 1)
        if p["pagelen"] > 1:
            yield _mod(case, pagelen=p["pagelen"] - 1)


SUBJECT_SIB = {"dt": "num", "numfc": "num", "txc": "tc", "dtp": "nump", "bo": "nump"}


def _subst_kt(case, old, new):
    """the case with key type ``old`` replaced by ``new`` in the history and
    in the operation under test (both must keep reading the same field)"""
    c2 = json.loads(json.dumps(case))
    for feat, p in all_ops(c2):
        if feat == "sort":
            for k in p["keys"]:
                if k[0] == old:
                    k[0] = new
        elif p.get("kt") == old:
            p["kt"] = new
    for g in (1, 2):
        if [new, g] not in c2["ix"]["need"]:
            c2["ix"]["need"].append([new, g])
    return c2


def _pre_variants(case):
    """simpler histories: each operation of the history simplified like an
    operation under test; a plainer key type for history and test together"""
    pre = case["pre"]
    for n, (feat, p) in enumerate(pre):
        for v in _p_variants({"feat": feat, "p": p, "ix": case["ix"]}):
            c2 = json.loads(json.dumps(case))
            c2["pre"][n] = [feat, v["p"]]
            yield c2
    kts = set()
    for feat, p in all_ops(case):
        if feat == "sort":
            kts.update(k[0] for k in p["keys"])
        elif p.get("kt"):
            kts.add(p["kt"])
    for kt in sorted(kts):
        if kt in SUBJECT_SIB:
            yield _subst_kt(case, kt, SUBJECT_SIB[kt])


def needed_for(case):
    kts = set([("tp", 1)])
    for feat, p in all_ops(case):
        if feat == "sort":
            for kt, g, rev in p["keys"]:
                kts.add((kt, g))
        elif feat in ("group", "collapse", "colread"):
            kts.add((p["kt"], 1))
    if case["feat"] == "colread" and not case.get("pre"):
        kts.discard(("tp", 1))
    return [[kt, g] for kt, g in sorted(kts) if field_of(kt)]


def _variants(case):
    """smaller candidate cases, most aggressive first"""
    import copy
    ix = case["ix"]
    pre = case.get("pre") or []
    if pre:
        # no history at all (then it is an ordinary case), then a shorter one
        c2 = copy.deepcopy(case)
        del c2["pre"]
        yield c2
        if len(pre) > 1:
            for n in reversed(range(len(pre))):
                c2 = copy.deepcopy(case)
                c2["pre"] = [pre[n]]
                yield c2
            for n in range(len(pre)):
                c2 = copy.deepcopy(case)
                c2["pre"] = pre[:n] + pre[n + 1:]
                yield c2
        for c2 in _pre_variants(case):
            yield c2
    if ix.get("deleted"):
        c2 = copy.deepcopy(case)
        c2["ix"]["deleted"] = []
        yield c2
        if len(ix["deleted"]) > 1:
            for d in ix["deleted"]:
                c2 = copy.deepcopy(case)
                c2["ix"]["deleted"] = [x for x in ix["deleted"] if x != d]
                yield c2
    if len(ix["segs"]) > 1:
        c2 = copy.deepcopy(case)
        c2["ix"]["segs"] = [ix["D"]]
        yield c2
        for n in range(len(ix["segs"]) - 1):
            c2 = copy.deepcopy(case)
            sg = list(ix["segs"])
            sg[n:n + 2] = [sg[n] + sg[n + 1]]
            c2["ix"]["segs"] = sg
            yield c2
    for c2 in _p_variants(case):
        yield c2
    for i in reversed(range(ix["D"])):
        c2 = _drop_doc(case, i)
        if c2 is not None:
            yield c2
    p = case["p"]
    for name in ("F", "M"):
        if p.get(name):
            for d in p[name]:
                c2 = copy.deepcopy(case)
                c2["p"][name] = [x for x in p[name] if x != d]
                yield c2
    # universe terms and fields that the case does not use
    want_xc = []
    for _, q in all_ops(case):
        if q.get("c") is not None and list(q["c"]) not in want_xc:
            want_xc.append(list(q["c"]))
    if ix.get("cu", "none") != "none" or (ix.get("xc") or []) != want_xc:
        c2 = copy.deepcopy(case)
        c2["ix"]["cu"] = "none"
        c2["ix"]["xc"] = want_xc
        yield c2
    need = needed_for(case)
    if sorted(map(tuple, ix["need"])) != sorted(map(tuple, need)):
        c2 = copy.deepcopy(case)
        c2["ix"]["need"] = need
        yield c2
    if ix.get("b") and ix["b"] != ix["a"] and not any(f == "sort" and any(k[1] == 2 for k in q["keys"])
                                                      for f, q in all_ops(case)):
        c2 = copy.deepcopy(case)
        c2["ix"]["b"] = list(ix["a"])
        yield c2
    for g in ("a", "b"):
        for i in range(ix["D"]):
            if ix.get(g) and ix[g][i] > 1:
                c2 = copy.deepcopy(case)
                c2["ix"][g][i] = 1
                yield c2


def shrink(case, kind, budget=250):
    """greedy delta debugging: accept a smaller case while the same
    discrepancy kind persists on the real code"""
    if case["feat"] == "floatcol":
        return case
    cur = case
    improved = True
    while improved and budget > 0:
        improved = False
        for cand in _variants(cur):
            budget -= 1
            if budget <= 0:
                break
            try:
                o = evaluate(cand)
            except Exception:
                continue
            if kind in o.kinds():
                cur = cand
                improved = True
                break
    return cur


def shape(case):
    ix = case.get("ix")
    if not ix:
        return "-"
    return ("multiseg" if len(ix["segs"]) > 1 else "oneseg") + ("+deletion" if ix.get("deleted") else "")


# -------------------------------------------------------------------------
# case enumeration per family

SORT_KTS = ["tp", "tc", "txc", "num", "nump", "numfp", "dt", "dtp", "bo", "st", "qf", "qfo",
            "rf", "drf", "fn"]
GROUP_KTS = ["tp", "tc", "txc", "num", "nump", "numfp", "dt", "dtp", "bo", "st", "qf", "qfo",
             "rf", "drf", "fn", "kw", "kwv", "kws", "qfov",
             "nmo", "nmz", "nfo", "dmo", "numo", "numpo", "dtpo", "boo", "tco"]
# overlapping facets on numeric / date / single-valued fields: two observations each
LIGHT_GROUP_KTS = MULTI_KTS + tuple(sorted(SINGLE_OVERLAP))
COLLAPSE_KTS = ["tp", "tc", "num", "nump", "numfp", "dt", "dtp", "bo", "st", "qf", "rf", "fn"]
NEED1 = [["tc", 1], ["txc", 1], ["tp", 1], ["num", 1], ["nump", 1], ["numfp", 1], ["dt", 1],
         ["dtp", 1], ["bo", 1], ["st", 1]]
NEED_GROUP = NEED1 + [["kw", 1], ["kwv", 1], ["kws", 1], ["nmo", 1], ["nmz", 1], ["nfo", 1], ["dmo", 1]]
PAIR_KTS = [("tp", "tc"), ("tc", "num"), ("num", "tp"), ("dt", "bo"), ("bo", "dtp"),
            ("nump", "tc"), ("qfo", "num"), ("tp", "sc"), ("sc", "tp"), ("fn", "dt"),
            ("tc", "fn"), ("txc", "nump")]
NEED2 = [["tc", 1], ["txc", 1], ["tp", 1], ["num", 1], ["nump", 1], ["dt", 1], ["bo", 1],
         ["tc", 2], ["tp", 2], ["num", 2], ["nump", 2], ["dt", 2], ["dtp", 2], ["bo", 2]]


def fn_table(a):
    """FunctionFacet table derived from the assignment (no missing notion)"""
    return [(v * 2) % 5 for v in a]


def cases_sort(M, D):
    a = M.assign[1]
    for kt in COLUMN_KTS:
        yield "colread", {"kt": kt}
    for kt in SORT_KTS:
        tab = fn_table(a) if kt == "fn" else None
        dirs = [(False, False, "name" if kt in FIELD_KTS else "facet"), (False, True, "facet")]
        if kt in FIELD_KTS:
            dirs.insert(1, (True, False, "facet"))
        for rev, orev, form in dirs:
            p = {"keys": [[kt, 1, rev]], "orev": orev, "form": form}
            if tab is not None:
                p["tab"] = tab
            yield "sort", p


def cases_sort2(M, D, c):
    a, b = M.assign[1], M.assign[2]
    for n, (k1, k2) in enumerate(PAIR_KTS):
        tab = fn_table(a if k1 == "fn" else b) if "fn" in (k1, k2) else None
        r1s = (False, True) if k1 in FIELD_KTS else (False,)
        r2s = (False, True) if k2 in FIELD_KTS else (False,)
        for r1 in r1s:
            for r2 in r2s:
                for orev in (False, True):
                    if orev and (r1 or r2) and n % 3:
                        continue
                    p = {"keys": [[k1, 1, r1], [k2, 2, r2]], "orev": orev,
                         "form": "multi" if (n + r1 + r2) % 2 else "list"}
                    if tab is not None:
                        p["tab"] = tab
                    if "sc" in (k1, k2):
                        p["c"] = c
                    yield "sort", p


def cases_score(M, D, clists):
    for c in clists:
        yield "sort", {"keys": [], "orev": False, "c": c}
        yield "sort", {"keys": [], "orev": True, "c": c}
        yield "sort", {"keys": [["sc", 1, False]], "orev": False, "c": c, "form": "facet"}
        yield "sort", {"keys": [["sc", 1, False]], "orev": True, "c": c, "form": "facet"}
        yield "sort", {"keys": [["tp", 1, False], ["sc", 1, False]], "orev": False, "c": c, "form": "list"}
        yield "sort", {"keys": [["bo", 1, True], ["sc", 1, False]], "orev": False, "c": c, "form": "multi"}


def cases_group(M, D, c, tab):
    a = M.assign[1]
    for kt in GROUP_KTS:
        gtab = fn_table(a) if kt == "fn" else None

        def P(**kw):
            p = {"kt": kt, "c": c}
            if gtab is not None:
                p["gtab"] = gtab
            p.update(kw)
            return p
        yield "group", P(mode="scored", limit=None, form="name" if kt in FIELD_KTS else "facet")
        if kt not in LIGHT_GROUP_KTS:
            yield "group", P(mode="scored", limit=1, form="dict")
        yield "group", P(mode="sorted", tab=tab, limit=None, form="pair")
        if kt in ("tp", "num", "kw", "qf"):
            for mt in ("count", "unordered", "best", "ordered"):
                yield "group", P(mode="scored", limit=None, maptype=mt, form="facet")
                yield "group", P(mode="sorted", tab=tab, limit=2, maptype=mt, form="dict")
        if kt in ("tp", "tc", "kw"):
            for F in ([], [0], list(range(1, D)), [0, D - 1]):
                yield "group", P(mode="scored", limit=None, F=F)


def cases_collapse(M, D, clist, tab):
    a = M.assign[1]
    for kt in COLLAPSE_KTS:
        gtab = fn_table(a) if kt == "fn" else None
        for N in (1, 2):
            for n, c in enumerate(clist):
                p = {"kt": kt, "climit": N, "order": None, "mode": "scored", "c": c,
                     "form": "facet" if n else "name"}
                if gtab is not None:
                    p["gtab"] = gtab
                yield "collapse", p
            p = {"kt": kt, "climit": N, "order": None, "mode": "sorted", "tab": tab, "c": clist[0]}
            if gtab is not None:
                p["gtab"] = gtab
            yield "collapse", p


def cases_collapse_deep(M, D, orders, clists, tabs):
    for N in (1, 2):
        for order in orders:
            for c in clists:
                yield "collapse", {"kt": "tp", "climit": N, "order": order, "mode": "scored", "c": c}
            for tab in tabs:
                yield "collapse", {"kt": "tp", "climit": N, "order": order, "mode": "sorted",
                                   "tab": tab, "c": clists[0]}


SEQ_KTS = ["num", "dt", "numfc", "tc", "nump", "bo"]
# key types whose column reader is switched to reversed keys by set_reverse()
SET_REVERSE_KTS = ("num", "dt", "numfc")


def seq_ops(kt, D):
    """the operations on one field that are run in every order on one searcher"""
    c = default_c(D)
    ops = [("sort", {"keys": [[kt, 1, False]], "orev": False, "form": "name"}),
           ("sort", {"keys": [[kt, 1, True]], "orev": False, "form": "facet"}),
           ("sort", {"keys": [[kt, 1, False]], "orev": True, "form": "facet"}),
           ("sort", {"keys": [["tp", 2, False], [kt, 1, True]], "orev": False, "form": "multi"}),
           ("group", {"kt": kt, "c": c, "mode": "scored", "limit": None, "form": "name"}),
           ("collapse", {"kt": kt, "climit": 1, "order": None, "mode": "scored", "c": c, "form": "name"})]
    if kt in SEQ_COLUMN_KTS:
        ops.append(("colread", {"kt": kt}))
    return ops


def as_history(feat, p):
    """an operation in the role of history: the unlimited search only"""
    if feat in ("sort", "collapse"):
        return feat, dict(p, nolimits=True)
    return feat, p


def subsets(D):
    out = []
    for m in range(1 << D):
        out.append([i for i in range(D) if (m >> i) & 1])
    out.sort(key=lambda x: (len(x), x))
    return out


def cases_filter(M, D, c, tab, tier):
    subs = subsets(D)
    forms = ["q", "set", "results", "bitset"]
    modes = [("scored", None), ("sorted", tab)]
    for mode, t in modes:
        def P(**kw):
            p = {"mode": mode, "c": c}
            if t is not None:
                p["tab"] = t
            p.update(kw)
            return p
        yield "filter", P(F=None, M=None)
        for S in subs:
            for f in forms:
                yield "filter", P(F=S, M=None, ff=f)
                yield "filter", P(F=None, M=S, mf=f)
        pairs = [("q", "q"), ("set", "set"), ("results", "results"), ("q", "set"), ("set", "results")]
        if tier == "thorough":
            pairs += [("bitset", "q"), ("results", "bitset"), ("set", "q")]
        for F in subs:
            for Mk in subs:
                for n, (ff, mf) in enumerate(pairs):
                    if mode == "sorted" and n >= 2 and tier != "thorough":
                        continue
                    yield "filter", P(F=F, M=Mk, ff=ff, mf=mf)


def cases_page(M, D, c, tab):
    subs = subsets(D)
    for mask in subs:
        for pagenum in (1, 2, 3):
            for pagelen in (1, 2, 3):
                yield "page", {"mask": mask, "c": c, "mode": "scored", "pagenum": pagenum, "pagelen": pagelen}
                yield "page", {"mask": mask, "mode": "sorted", "tab": tab, "pagenum": pagenum, "pagelen": pagelen}
    full = list(range(D))
    for F in subs:
        for pagenum in (1, 2, 3):
            for pagelen in (1, 2, 3):
                yield "page", {"mask": full, "c": c, "mode": "scored", "pagenum": pagenum,
                               "pagelen": pagelen, "F": F, "ff": "q"}
                yield "page", {"mask": None, "c": c, "mode": "scored", "pagenum": pagenum,
                               "pagelen": pagelen, "F": F, "ff": "set"}


def perm_lists(D):
    return [list(p) for p in itertools.permutations(range(1, D + 1))]


def family_cases(fam, M, ixs, tier):
    D = ixs["D"]
    c = default_c(D)
    tab = list(reversed(default_c(D)))
    if fam == "sort":
        return cases_sort(M, D)
    if fam == "sort2":
        return cases_sort2(M, D, c)
    if fam == "score":
        return cases_score(M, D, c_universe(D, "full"))
    if fam == "group":
        return cases_group(M, D, c, tab)
    if fam == "collapse":
        return cases_collapse(M, D, [c, list(reversed(c))], tab)
    if fam == "deep":
        perms = perm_lists(D)
        if tier == "quick":
            orders = [None] + perms[::4]
        else:
            orders = [None] + perms + [[1] * D, [1, 2] * (D // 2) + [1] * (D % 2)]
        return cases_collapse_deep(M, D, orders, perms, perms[::5] if tier == "quick" else perms[::3])
    if fam == "filter":
        return cases_filter(M, D, c, tab, tier)
    if fam == "page":
        return cases_page(M, D, c, tab)
    raise ValueError(fam)


def family_ix(fam, D, a, b, segs, deleted):
    c = default_c(D)
    ixs = {"D": D, "a": list(a), "b": list(b) if b is not None else list(a),
           "segs": list(segs), "deleted": list(deleted)}
    if fam == "sort":
        ixs.update(need=NEED1, cu="none", xc=[])
    elif fam == "sort2":
        ixs.update(need=NEED2, cu="none", xc=[c])
    elif fam == "score":
        ixs.update(need=[["tp", 1], ["bo", 1]], cu="full", xc=[])
    elif fam == "group":
        ixs.update(need=NEED_GROUP, cu="none", xc=[c])
    elif fam == "collapse":
        ixs.update(need=NEED1, cu="none", xc=[c, list(reversed(c))])
    elif fam == "deep":
        ixs.update(need=[["tp", 1]], cu="perm", xc=[])
    elif fam == "filter":
        ixs.update(need=[["tp", 1]], cu="none", xc=[c])
    elif fam == "page":
        ixs.update(need=[["tp", 1]], cu="none", xc=[c])
    elif fam == "seq":
        ixs.update(need=[[kt, 1] for kt in SEQ_KTS] + [["tp", 1], ["tp", 2]], cu="none", xc=[c])
    else:
        raise ValueError(fam)
    return ixs


# -------------------------------------------------------------------------
# tasks

def _record(raw, acc, case, kind, what, multiseg):
    ps = presig(case, kind) + "|" + ("multiseg" if multiseg else "oneseg")
    acc.count("violating_observations")
    cur = raw.get(ps)
    if cur is None:
        raw[ps] = [case, kind, what, 1]
    else:
        cur[3] += 1
        if simplicity(case) < simplicity(cur[0]):
            cur[0], cur[2] = case, what


def seq_task(t):
    """every ordered pair of operations on one field, on one searcher"""
    fam, tier, specs = t
    acc = core.Acc()
    raw = {}
    for D, a, b, segs, deleted in specs:
        ixs = family_ix("seq", D, a, b, segs, deleted)
        ix, M = build(ixs)
        acc.count("indexes")
        multiseg = len(segs) > 1
        try:
            for kt in SEQ_KTS:
                ops = seq_ops(kt, D)
                base = []
                # each operation on a searcher without history
                for feat, p in ops:
                    s = open_searcher(ix, M)
                    try:
                        o = observe(s, M, feat, p)
                    finally:
                        s.close()
                    acc.count("evaluations")
                    acc.count("evaluations_seq")
                    base.append(set(o.kinds()))
                    for kind, what in o.items:
                        _record(raw, acc, json.loads(json.dumps({"ix": ixs, "feat": feat, "p": p})),
                                kind, what, multiseg)
                for i, (f1, p1) in enumerate(ops):
                    f1, p1 = as_history(f1, p1)
                    for j, (f2, p2) in enumerate(ops):
                        if i == j:
                            continue
                        s = open_searcher(ix, M)
                        try:
                            perform(s, M, f1, p1)
                            o = observe(s, M, f2, p2)
                        finally:
                            s.close()
                        acc.count("evaluations")
                        acc.count("evaluations_seq")
                        acc.count("seq_ordered_pairs")
                        if o.info.get("nontrivial"):
                            acc.count("distinct_nontrivial")
                        if kt in SET_REVERSE_KTS and i in (1, 3) and any(a):
                            acc.count("seq_pairs_after_a_reversed_facet_on_a_reversible_column")
                        for name in o.info.get("engaged", ()):
                            acc.count("engaged_" + name)
                        if (i * 7 + j + len(segs) + sum(a)) % 499 == 5:
                            acc.sample({"ix": ixs, "pre": [[f1, p1]], "feat": f2, "p": p2, "kinds": o.kinds()})
                        for kind, what in o.items:
                            if kind in base[j]:
                                continue        # not a matter of history: reported above
                            case = json.loads(json.dumps({"ix": ixs, "pre": [[f1, p1]], "feat": f2, "p": p2}))
                            _record(raw, acc, case, kind, "after %s %s: %s" % (f1, variant_of(f1, p1), what), multiseg)
        finally:
            ix.close()
    res = acc.result()
    res["raw"] = raw
    return res


def task(t):
    fam, tier, specs = t
    if fam == "seq":
        return seq_task(t)
    acc = core.Acc()
    raw = {}
    for D, a, b, segs, deleted in specs:
        ixs = family_ix(fam, D, a, b, segs, deleted)
        ix, M = build(ixs)
        acc.count("indexes")
        if M.seg_lacks_value(1) and len(segs) > 1 and any(a):
            acc.count("indexes_with_a_segment_lacking_the_column")
        try:
            s = open_searcher(ix, M)
            try:
                for n, (feat, p) in enumerate(family_cases(fam, M, ixs, tier)):
                    acc.count("evaluations")
                    acc.count("evaluations_" + fam)
                    o = observe(s, M, feat, p)
                    if o.info.get("nontrivial"):
                        acc.count("distinct_nontrivial")
                    for name in o.info.get("engaged", ()):
                        acc.count("engaged_" + name)
                    if (n + len(segs) + sum(a)) % 997 == 5:
                        acc.sample({"ix": ixs, "feat": feat, "p": p, "kinds": o.kinds()})
                    for kind, what in o.items:
                        # "hist": the observation was the n-th on this searcher
                        # (used when it does not reproduce on a fresh one)
                        case = json.loads(json.dumps({"ix": ixs, "feat": feat, "p": p,
                                                      "hist": [fam, tier, n]}))
                        _record(raw, acc, case, kind, what, len(segs) > 1)
            finally:
                s.close()
        finally:
            ix.close()
    res = acc.result()
    res["raw"] = raw
    return res


def floatcol_task(t):
    acc = core.Acc()
    raw = {}
    for vals in t:
        acc.count("evaluations")
        case = {"feat": "floatcol", "p": {"vals": list(vals)}}
        o = evaluate(case)
        for kind, what in o.items:
            ps = presig(case, kind) + "|oneseg"
            acc.count("violating_observations")
            if ps not in raw:
                raw[ps] = [case, kind, what, 1]
            else:
                raw[ps][3] += 1
    res = acc.result()
    res["raw"] = raw
    return res


def with_history(case, kind, hist):
    """The observation showed ``kind`` as the n-th observation on the searcher
    of its task but does not on a fresh searcher: give it the shortest suffix
    (doubling) of the observations made before it that reproduces it."""
    fam, tier, n = hist
    ixs = case["ix"]
    M = Model(ixs["D"], ixs["a"], ixs.get("b") or ixs["a"], ixs["segs"], ixs.get("deleted") or [])
    full = json.loads(json.dumps([[f, p] for f, p in itertools.islice(family_cases(fam, M, ixs, tier), n)]))
    k = 1
    while True:
        c2 = dict(case, pre=full[-k:] if k < len(full) else full)
        if kind in evaluate(c2).kinds():
            return c2
        if k >= len(full):
            raise core.HarnessError("observation reproduces neither on a fresh searcher nor after the %d "
                                    "observations made before it: %r %s" % (len(full), case, kind))
        k *= 2


def shrink_task(t):
    case, kind, what, n = t
    hist = case.pop("hist", None)
    if hist and not case.get("pre") and kind not in evaluate(case).kinds():
        case = with_history(case, kind, hist)
    small = shrink(case, kind)
    o = evaluate(small)
    msg = dict(o.items).get(kind, what)
    return {"case": small, "kind": kind, "what": msg, "n": n, "reproduced": kind in o.kinds()}


def del_family(D, tier):
    fam = [[], [0], [D - 1], [1, 2]]
    if tier == "thorough":
        fam += [[0, D - 1], [1], [0, 1, 2]]
    return fam


def chunks(lst, n):
    for i in range(0, len(lst), n):
        yield lst[i:i + n]


def assignments(D, vals=(0, 1, 2, 3)):
    out = [list(x) for x in itertools.product(vals, repeat=D)]
    out.sort(key=lambda x: (sum(1 for v in x if v), sum(x), x))
    return out


def plan(tier, seed):
    """list of (family, [index specs (D, a, b, segs, deleted)], specs per task)"""
    out = []
    comps3 = corpus.compositions(3)
    comps4 = corpus.compositions(4)
    comps5 = corpus.compositions(5)
    quick = tier == "quick"
    qdels = [[0], [3], [1, 2]]
    # --- single-key sorts, groups, collapse: every assignment x every composition
    for fam, per in (("sort", 24), ("group", 16), ("collapse", 16)):
        specs = []
        for n, a in enumerate(assignments(4)):
            for m, segs in enumerate(comps4):
                if quick:
                    # always without deletion; sorts: plus one deletion set,
                    # groups/collapse: plus one for every 8th (assignment,
                    # composition), rotating over the family and the seed
                    dels = [[]]
                    if fam == "sort" or (n + m + seed) % 8 == 0:
                        dels.append(qdels[(n + m + seed) % 3])
                elif fam == "sort":
                    dels = del_family(4, tier)
                else:
                    dels = [[], [0], [3], [1, 2]]
                for de in dels:
                    specs.append((4, a, None, segs, de))
        out.append((fam, specs, per))
        # D=5
        specs = []
        for n, a in enumerate(assignments(5)):
            if quick:
                if fam != "sort":
                    continue
                pick = [comps5[(n + seed) % len(comps5)]]
            else:
                pick = comps5[(n + seed) % 2::2]
            for segs in pick:
                specs.append((5, a, None, segs, []))
        if specs:
            out.append((fam, specs, per))
    # --- two-key sorts
    specs = []
    if quick:
        for n, a in enumerate(assignments(3)):
            for m, b in enumerate(assignments(3, (0, 1, 2))):
                specs.append((3, a, b, comps3[(n + m + seed) % 4], []))
        b4 = assignments(4, (0, 1, 2))
        for n, a in enumerate(assignments(4, (0, 1, 2))):
            for b in b4[(n + seed) % 8::8]:
                specs.append((4, a, b, [[4], [2, 2], [1, 3], [1, 1, 2]][(sum(a) + sum(b)) % 4], []))
    else:
        for a in assignments(3):
            for b in assignments(3):
                for segs in comps3:
                    specs.append((3, a, b, segs, []))
        for n, a in enumerate(assignments(4, (0, 1, 2))):
            for m, b in enumerate(assignments(4, (0, 1, 2))):
                for segs in ([[4], [2, 2]], [[1, 3], [1, 1, 2]])[(n + m + seed) % 2]:
                    specs.append((4, a, b, segs, []))
    out.append(("sort2", specs, 40))
    # --- scores, filters, pages: every composition x deletion sets
    for fam in ("score", "filter", "page"):
        specs = []
        a4 = [1, 0, 2, 1]
        for segs in comps4:
            if not quick or fam == "page":
                dels = subsets(4)[:-1]
            else:
                dels = [[], [0], [3], [1, 2], [0, 3], [1]]
            for de in dels:
                specs.append((4, a4, None, segs, de))
        a5 = [1, 0, 2, 1, 3]
        if fam == "page" or not quick:
            for segs in (comps5 if not quick else comps5[seed % 4::4]):
                for de in ([], [0], [2, 3]):
                    if fam == "filter" and de == [0]:
                        continue
                    specs.append((5, a5, None, segs, de))
        out.append((fam, specs, 1 if fam in ("filter", "score") else 2))
    # --- collapse with an order facet under every limit
    specs = []
    for a in assignments(4, (0, 1, 2)):
        for segs in ([[4], [2, 2]] if quick else comps4):
            specs.append((4, a, None, segs, []))
        if not quick:
            specs.append((4, a, None, [1, 3], [0]))
    out.append(("deep", specs, 2 if quick else 1))
    # --- histories: ordered pairs of operations on one searcher
    specs = []
    b3 = [1, 1, 2]
    sdels = [[0], [2], [1]]
    for n, a in enumerate(assignments(3, (0, 1, 2)) if quick else assignments(3)):
        for m, segs in enumerate(comps3):
            specs.append((3, a, b3, segs, []))
            if not quick or (n + m + seed) % 4 == 0:
                specs.append((3, a, b3, segs, sdels[(n + m + seed) % 3]))
    if not quick:
        for n, a in enumerate(assignments(4, (0, 1, 2))):
            for segs in ([4], [2, 2], [1, 3], [1, 1, 2]):
                specs.append((4, a, [1, 1, 2, 2], segs, []))
    out.append(("seq", specs, 6))
    return out


def lencount_task(t):
    """len(results) is the exact match count whatever the limit - also when
    posting blocks were skipped or the matcher was rewritten in an earlier
    segment.  Reuses the C01 universe corpus (one term per subset of
    documents), blocks of 1 posting, multi-segment layouts with a field that
    exists only in some segments."""
    from mc import corpus, qast
    from mc.checks import c01
    D, seed, layout, nsl, sl = t
    acc = core.Acc()
    docs = corpus.universe_docs(D, seed)
    if layout.get("w_only_in_last"):
        # field w exists only in the last document, i.e. only in the last
        # segment: Every("w") / Prefix("w", ..) clauses vanish from the
        # matcher of the earlier segments (which then supports block quality
        # and skips) but not from the last one
        for i in range(D - 1):
            docs[i]["w"] = []
        docs[D - 1]["w"] = ["a", "ab"]
    ix, docs = corpus.build_index(docs, layout)
    try:
        model = corpus.make_model(docs)
        terms = c01.term_leaves(D)
        extra = [["everyf", "w"], ["everyf", "n"], ["everyf", "p"], ["every"], ["prefix", "w", "a"]]
        with ix.searcher() as s:
            km = c01.keymap(s)
            i = 0
            for op in c01.NARY + c01.BINOPS:
                for a in terms + extra:
                    for b in (terms + extra if D <= 4 else extra):
                        i += 1
                        if i % nsl != sl:
                            continue
                        ast = [op, [a, b]] if op in c01.NARY else [op, a, b]
                        ref = qast.ref_eval(ast, model)
                        q = qast.to_whoosh(ast)
                        for k in (1, 2, 3):
                            acc.count("evaluations")
                            acc.count("lencount_cases")
                            try:
                                r = s.search(q, limit=k)
                                n = len(r)
                                dset = set(km[d] for d in r.docs())
                            except Exception as e:
                                acc.violation("len|exc:%s" % type(e).__name__,
                                              {"lencount": True, "D": D, "seed": seed, "layout": layout, "ast": ast, "k": k},
                                              "search(limit=%d) raised %r" % (k, e))
                                continue
                            if 0 < len(ref) < D:
                                acc.count("distinct_nontrivial")
                            if n != len(ref) or dset != ref:
                                acc.violation("len|%s|limit|%s" % (c01.top_shape(ast), "count" if n != len(ref) else "docs"),
                                              {"lencount": True, "D": D, "seed": seed, "layout": layout, "ast": ast, "k": k},
                                              "%s limit=%d: len(results)=%d docs()=%s, matching documents %s"
                                              % (qast.shape(ast), k, n, sorted(dset), sorted(ref)))
    finally:
        corpus.destroy_index(ix)
    return acc.result()


def run(ctx):
    tasks = []
    fams = {}
    import os
    only = [x for x in os.environ.get("C14_FAMILIES", "").split(",") if x]
    stride = int(os.environ.get("C14_STRIDE", "1") or 1)
    if only or stride > 1:
        ctx.cap("development run restricted to families %r, every %d-th index" % (only, stride))
    for fam, specs, per in plan(ctx.tier, ctx.seed):
        if only and fam not in only:
            continue
        specs = specs[::stride]
        fams[fam] = fams.get(fam, 0) + len(specs)
        for ch in chunks(specs, per):
            tasks.append((fam, ctx.tier, ch))
    ctx.extra["indexes_planned_per_family"] = fams
    quick = ctx.tier == "quick"
    ctx.rule = (
        "index = (D documents; assignment a: documents -> {missing,v1,v2,v3} applied to every key-type field: "
        "ID/TEXT with column, ID without column, NUMERIC int with/without column, NUMERIC float, DATETIME "
        "with/without column, BOOLEAN, STORED, multi-valued KEYWORD plain/vector/stored, multi-valued NUMERIC int "
        "(default shift_step / shift_step=0), NUMERIC float and DATETIME without column; segment composition; "
        "deletion set). sort/group/collapse: all 4^4 assignments x all 8 compositions of 4 (so every "
        "'segment without the column' layout) x deletion family (" +
        ("none, plus one rotating deletion set" if quick else "4-7 deletion sets") +
        "), and all 4^5 assignments of D=5 x " +
        ("one rotating composition (sorts only)" if quick else "8 of the 16 compositions (rotating)") +
        "; per index every observation of the family, all on ONE searcher in a fixed order (an observation "
        "that fails there but not on a fresh searcher is reported with the shortest reproducing history). "
        "sort: 15 key kinds x {ascending, facet reversed, "
        "search reversed} x limits {None,1,2} + column_reader/Hit values; sort2: 12 key-kind pairs x direction "
        "combinations over all (a, b) with " +
        ("D=3 (a in 4^3, b in 3^3) and a rotating eighth of 3^4 x 3^4" if quick else
         "D=3 (4^3 x 4^3, all compositions) and D=4 (3^4 x 3^4, 2 compositions)") +
        "; score: every score vector in {1,2,3}^D and every permutation x {plain, reverse, ScoreFacet, "
        "field+ScoreFacet} x limits; group: 28 facet kinds x scored/sorted/limited/filtered x "
        "map types x groupedby forms, 13 of them overlapping (allow_overlap=True): multi-valued KEYWORD "
        "plain/vector/stored, overlapping QueryFacet, multi-valued NUMERIC int (default 8 precision tiers), "
        "NUMERIC int shift_step=0, NUMERIC float, DATETIME (values [x], [y], [x, y] or missing), and "
        "single-valued NUMERIC with/without column, DATETIME, BOOLEAN, ID with column (the last 9: unlimited "
        "scored and sorted+second-facet observations only); collapse: 12 key kinds x collapse_limit 1..2 x scored/sorted x limits, "
        "and (deep) a in 3^4 x " + ("7" if quick else "27") + " collapse_order tables x every score permutation "
        "x collapse_limit 1..2 x limits {None,1,2}; filter: every filter set x every mask set (16 x 16, D=4" +
        ("" if quick else "; 32 x 32, D=5") + ") x object forms {query, Results, set, BitSet} x scored/sorted x "
        "limits on every composition x deletion sets; page: every match set x pagenum 1..3 x pagelen 1..3 x "
        "scored/sorted/filtered on every composition x every deletion set; seq (histories): all " +
        ("3^3 assignments (missing, v1, v2)" if quick else "4^3 assignments") +
        " of D=3 x all 4 compositions (" + ("plus a rotating deletion for a quarter" if quick else
                                           "with and without a deletion, plus 3^4 assignments of D=4 x 4 compositions") +
        ") x 6 field kinds (NUMERIC int/float, DATETIME and ID with column; NUMERIC and BOOLEAN without) x "
        "every ordered pair (op1, op2), op1 != op2, of {sort ascending by name, sort by FieldFacet(reverse=True), "
        "ascending with search reverse=True, MultiFacet [other field, this field reversed], groupedby, collapse, "
        "column_reader + Hit values}: op1 then op2 on a fresh searcher, op2 judged by the same oracle as on its "
        "own (a discrepancy it also shows without op1 is reported without history). An observation is "
        "non-trivial when "
        "the view differs from the identity: sorted order differs from document order, >=2 groups, >=1 document "
        "collapsed, filter keeps a proper non-empty subset, more hits than fit on the page. Enumerated "
        "without repetition; violations are shrunk (documents, segments, deletions, parameters, key type) "
        "on the real code before the signature is taken.")
    ctx.assumptions = [
        "Frequency weighting, so the score of Term('s', 'c<digits>') is the digit of the document (exact floats)",
        "a document without a value must sort after documents with one only for an ascending key of a "
        "non-reversed search (facets.rst 'Missing values'); under reverse its place is not demanded",
        "search(reverse=True) reverses tie order too (exact reversal of the ascending list)",
        "search_page past the last page may either raise ValueError (search_page docstring) or clamp "
        "(ResultsPage docstring)",
        "len(results) of a collapsed search may be the number of matching or of surviving documents, "
        "but the same for every limit",
        "BOOLEAN group names may be 't'/'f' or True/False",
        "searches do not change a searcher: what a search returns does not depend on the searches the same "
        "searcher served before (implied by 'exact views': the oracle is a function of index and arguments)",
        "a multi-valued NUMERIC/DATETIME document is indexed with add_document(field=[x, y]); its overlapping "
        "groups are named by the values themselves (as for the non-overlapping facet of the same field)",
        "collapse_order ties at the cut: any best-N choice accepted",
    ]
    results = ctx.pmap(task, tasks)
    results += ctx.pmap(floatcol_task, [assignments(1) + assignments(2) + assignments(3)])
    if not only:
        lays = [{"segs": [2, 2], "deleted": [], "blocklimit": 1}, {"segs": [3, 1], "deleted": [0], "blocklimit": 1},
                {"segs": [1, 1, 1, 1], "deleted": [3], "blocklimit": None, "storage": "file"},
                {"segs": [1, 3], "deleted": [], "blocklimit": 2},
                {"segs": [3, 1], "deleted": [], "blocklimit": 1, "w_only_in_last": True},
                {"segs": [2, 1, 1], "deleted": [], "blocklimit": 1, "w_only_in_last": True}]
        if ctx.tier != "quick":
            lays += [{"segs": c, "deleted": d, "blocklimit": 1} for c in ([4], [2, 1, 1], [1, 2, 1]) for d in ([], [1], [0, 3])]
        big = [{"segs": [5, 1], "deleted": [], "blocklimit": 1, "w_only_in_last": True},
               {"segs": [3, 2, 1], "deleted": [1], "blocklimit": 1, "w_only_in_last": True},
               {"segs": [5, 1], "deleted": [], "blocklimit": 2, "w_only_in_last": True}]
        ctx.pmap(lencount_task, [(4, ctx.seed, lay, 4, sl) for lay in lays for sl in range(4)]
                 + [(6, ctx.seed, lay, 2, sl) for lay in big for sl in range(2)])
    # merge raw violations: one representative (the simplest) per pre-signature
    merged = {}
    for res in results:
        for ps, (case, kind, what, n) in (res.get("raw") or {}).items():
            cur = merged.get(ps)
            if cur is None:
                merged[ps] = [case, kind, what, n]
            else:
                cur[3] += n
                if simplicity(case) < simplicity(cur[0]):
                    cur[0], cur[2] = case, what
    ctx.extra["raw_violation_groups"] = len(merged)
    shr = ctx.pmap(shrink_task, [tuple(v) for _, v in sorted(merged.items())], absorb=False)
    for res in shr:
        if not res["reproduced"]:
            raise core.HarnessError("shrunk case does not reproduce: %r" % (res,))
        case = res["case"]
        sig = final_sig(case, res["kind"])
        ctx.violation(sig, case, "%s %s: %s" % (case["feat"], variant_of(case["feat"], case["p"]), res["what"]), res["n"])
    c = ctx.counters
    if only or stride > 1:
        return
    if c.get("indexes_with_a_segment_lacking_the_column", 0) < 100:
        raise core.HarnessError("vacuous: no index with a segment lacking the column")
    if c.get("distinct_nontrivial", 0) < 1000:
        raise core.HarnessError("vacuous: too few non-trivial observations")
    if c.get("seq_pairs_after_a_reversed_facet_on_a_reversible_column", 0) < 1000:
        raise core.HarnessError("vacuous: only %d ordered pairs started with a reversed facet on a reversible column"
                                % c.get("seq_pairs_after_a_reversed_facet_on_a_reversible_column", 0))
    for name in ("TopCollector", "UnlimitedCollector", "SortingCollector", "FilterCollector",
                 "ColumnCategorizer", "PostingCategorizer", "ReversedColumnCategorizer",
                 "OverlappingCategorizer"):
        if c.get("engaged_" + name, 0) < 100:
            raise core.HarnessError("vacuous: %s engaged in only %d observations" % (name, c.get("engaged_" + name, 0)))


def replay(case):
    core.setup_process(0)
    if case.get("lencount"):
        from mc.checks import c01
        return c01.replay(dict(case, path="k%d" % min(case["k"], 2)))
    o = evaluate(case)
    return {"ok": not o.items, "kinds": o.kinds(),
            "what": "; ".join("%s: %s" % kw for kw in o.items) or "as documented",
            "variant": variant_of(case["feat"], case["p"])}
