"""History executor: document-level operations + a split into commits + a
merge choice per commit + a writer front-end  ->  a real whoosh index.

Operations (JSON-able lists):
    ["add", key, variant]                      add_document
    ["update", key, variant]                   update_document (unique key)
    ["delete", key]                            delete_by_term(keyfield, key)
    ["group", [pkey, pvar], [ckey, cvar]]      parent + child inside writer.group()
    ["rmfield", fieldname]                     remove_field (first op of its commit)

A *history* of an operation list is
    splits  a composition of len(ops): how many consecutive ops each commit takes
    merges  one of MERGES per commit:
              "nomerge"  commit(merge=False)
              "default"  commit()              (MERGE_SMALL policy)
              "optimize" commit(optimize=True)
              "first2"   commit(mergetype=merge_first_two)  (custom policy)
    config  {"frontend": plain | async | buffered | serialmp | mp | mp_multiseg,
             "blocklimit": int or None, "storage": "ram" | "file",
             "buffer_limit": int (buffered), "procs": int, "batchsize": int (mp),
             "schema": Schema or None, "docfn": callable or None,
             "keyfield": "key"}

    ix = run_history(ops, splits, merges, config)

The logical meaning of an operation list does not depend on the history as
long as the documented discipline is respected, which ``split_problem``
checks: inside one writer a key that was already written (add / update /
group) is not touched again by update or delete - update_document and
delete_by_term only see *committed* documents (docs of
IndexWriter.update_document), and BufferedWriter differs exactly there.
``model(ops)`` gives that meaning; ``reference_index(ops)`` builds it the
boring way (one plain writer, surviving documents only, commit(optimize=True)).

Everything lives in private directories (core.fresh_dir / RamStorage; the
process-wide tempfile.tempdir is private, see core.scratch_root).  The
multiprocessing front-ends need a file storage and a non-daemonic process:
use ``run_isolated`` (fresh interpreter, hard timeout, whole process group
killed on expiry).
"""
import json
import os
import shutil
import signal
import subprocess
import sys

from mc import core

MERGES = ("nomerge", "default", "optimize", "first2")
FRONTENDS = ("plain", "async", "buffered", "serialmp", "mp", "mp_multiseg")
NVARIANTS = 8


# -------------------------------------------------------------------------
# schema and documents

def default_schema():
    """key: unique stored sortable ID; kind: p(arent/plain) | c(hild);
    t: TEXT with positions+chars and a term vector; tb: positions+chars+
    per-token boosts (CharacterBoosts) with a Positions vector; tags: scorable
    KEYWORD with vector; n: sortable stored 8-bit NUMERIC (two precision tiers); so: stored only; rm: an
    indexed+stored+sortable field that histories may remove."""
    from whoosh import fields, formats, analysis, columns
    space = analysis.SpaceSeparatedTokenizer()
    boosted = analysis.RegexTokenizer(r"\S+") | analysis.DelimitedAttributeFilter()
    return fields.Schema(
        # pure column fields: neither indexed nor stored
        cv=fields.COLUMN(columns.VarBytesColumn()),
        cn=fields.COLUMN(columns.NumericColumn("i")),
        key=fields.ID(stored=True, unique=True, sortable=True),
        kind=fields.ID(stored=True),
        t=fields.TEXT(analyzer=space, phrase=True, chars=True, vector=True),
        tb=fields.FieldType(format=formats.CharacterBoosts(), analyzer=boosted,
                            scorable=True, vector=formats.Positions()),
        tags=fields.KEYWORD(scorable=True, stored=True, vector=True),
        n=fields.NUMERIC(int, bits=8, signed=True, stored=True, sortable=True),
        so=fields.STORED,
        rm=fields.TEXT(analyzer=space, stored=True, sortable=True),
    )


_VARIANTS = [
    dict(t="alfa bravo", tb="alfa^2 bravo", tags="x y", n=3, so={"a": 1}, rm="rmx rmy", cv=b"v0", cn=7),
    dict(t="bravo bravo charlie", tb="bravo charlie^1.5 bravo^3", tags="y", n=-7, so="s1", rm="rmy", cn=-2),
    dict(tb="charlie", tags="x x z", cv=b"v2 long value"),
    dict(t="alfa", n=0, so=[1, 2], rm="rmx rmx"),
    dict(t="charlie alfa bravo alfa", tb="alfa alfa^4", tags="z", n=100, rm="rmz", cv=b"", cn=0),
    dict(t="bravo", tb="bravo^2 delta", tags="y z", n=3, cv=b"v5", cn=500),
    dict(t="alfa alfa alfa bravo", tags="x", n=-1, so="s6", rm="rmx"),
    dict(t="delta", tb="alfa bravo charlie delta", n=12, so=None),
]


def default_doc(key, variant, kind="p"):
    """Field values of the document (key, variant, kind)."""
    d = dict(_VARIANTS[variant % NVARIANTS])
    d = dict((k, v) for k, v in d.items() if v is not None)
    d["key"] = key
    d["kind"] = kind
    return d


def merge_first_two(writer, segments):
    """Custom merge policy (documented signature: writer, segments ->
    segments): merges the two oldest segments into the segment being written."""
    from whoosh.reading import SegmentReader
    if len(segments) < 2:
        return segments
    for seg in segments[:2]:
        reader = SegmentReader(writer.storage, writer.schema, seg)
        writer.add_reader(reader)
        reader.close()
    return segments[2:]


def commit_kwargs(merge):
    if merge == "nomerge":
        return {"merge": False}
    if merge == "default":
        return {}
    if merge == "optimize":
        return {"optimize": True}
    if merge == "first2":
        return {"mergetype": merge_first_two}
    raise ValueError(merge)


def codec_for(config):
    bl = config.get("blocklimit")
    if bl is None:
        return None
    from whoosh.codec.whoosh3 import W3Codec
    return W3Codec(blocklimit=bl)


# -------------------------------------------------------------------------
# meaning of an operation list

def model(ops):
    """Dictionary model.  Returns {"docs": [doc, ...] (live documents in
    creation order of the surviving version), "removed": [fieldnames]} with
    doc = {key, variant, kind, parent, child, orphan}: ``child`` / ``parent``
    name the other member of a group while BOTH members are still the live
    documents written by that group; a child whose parent document was
    deleted or replaced is an ``orphan``."""
    docs = []

    def kill(key):
        for d in docs:
            if d["key"] != key:
                continue
            for o in docs:
                if d["child"] is not None and o["key"] == d["child"] and o["parent"] == key:
                    o["parent"] = None
                    o["orphan"] = True
                if d["parent"] is not None and o["key"] == d["parent"] and o["child"] == key:
                    o["child"] = None
        docs[:] = [d for d in docs if d["key"] != key]

    def new(key, variant, kind, parent=None, child=None):
        return {"key": key, "variant": variant, "kind": kind, "parent": parent,
                "child": child, "orphan": False}

    removed = []
    for op in ops:
        kind = op[0]
        if kind == "add":
            docs.append(new(op[1], op[2], "p"))
        elif kind == "update":
            kill(op[1])
            docs.append(new(op[1], op[2], "p"))
        elif kind == "delete":
            kill(op[1])
        elif kind == "group":
            (pk, pv), (ck, cv) = op[1], op[2]
            docs.append(new(pk, pv, "p", child=ck))
            docs.append(new(ck, cv, "c", parent=pk))
        elif kind == "rmfield":
            if op[1] not in removed:
                removed.append(op[1])
        else:
            raise ValueError(op)
    return {"docs": docs, "removed": removed}


def keys_written(op):
    if op[0] in ("add", "update"):
        return [op[1]]
    if op[0] == "group":
        return [op[1][0], op[2][0]]
    return []


def ops_problem(ops):
    """None if the list is meaningful: add/group only with keys that are not
    live (unique keys), rmfield at most once per field."""
    live = set()
    removed = set()
    for op in ops:
        if op[0] in ("add", "group"):
            for k in keys_written(op):
                if k in live:
                    return "add of live key %r" % k
                live.add(k)
        elif op[0] == "update":
            live.add(op[1])
        elif op[0] == "delete":
            live.discard(op[1])
        elif op[0] == "rmfield":
            if op[1] in removed:
                return "field removed twice"
            removed.add(op[1])
    return None


def split_problem(ops, splits):
    """None if the split respects the documented discipline, else why not."""
    if sum(splits) != len(ops) or any(n < 0 for n in splits):
        return "not a composition"
    pos = 0
    for n in splits:
        written = set()
        for j, op in enumerate(ops[pos:pos + n]):
            if op[0] in ("update", "delete") and op[1] in written:
                return "key %r written and then %sd in one writer" % (op[1], op[0])
            if op[0] == "rmfield" and j != 0:
                return "schema change after other operations of the writer"
            written.update(keys_written(op))
        pos += n
    return None


# -------------------------------------------------------------------------
# executor

def create_index(config=None):
    config = config or {}
    from whoosh.filedb.filestore import RamStorage, FileStorage
    schema = config.get("schema") or default_schema()
    if config.get("storage", "ram") == "ram":
        st = RamStorage()
    else:
        st = FileStorage(core.fresh_dir("hix"))
    return st.create_index(schema)


def open_writer(ix, merge, config):
    """The configured front-end; returns (writer, finish) where finish()
    commits with the merge choice."""
    fe = config.get("frontend", "plain")
    codec = codec_for(config)
    wargs = {"codec": codec} if codec is not None else {}
    ckw = commit_kwargs(merge)
    if fe == "plain":
        w = ix.writer(**wargs)
        return w, (lambda: w.commit(**ckw))
    if fe == "async":
        from whoosh.writing import AsyncWriter
        w = AsyncWriter(ix, writerargs=wargs)
        if w.writer is None:
            raise core.HarnessError("AsyncWriter could not lock an uncontended index")
        return w, (lambda: w.commit(**ckw))
    if fe == "buffered":
        from whoosh.writing import BufferedWriter
        w = BufferedWriter(ix, period=None, limit=config.get("buffer_limit", 2),
                           writerargs=wargs, commitargs=ckw)
        return w, w.close
    if fe == "serialmp":
        from whoosh.multiproc import SerialMpWriter
        w = SerialMpWriter(ix, procs=config.get("procs", 2), **wargs)
        return w, (lambda: w.commit(**ckw))
    if fe in ("mp", "mp_multiseg"):
        w = ix.writer(procs=config.get("procs", 2), batchsize=config.get("batchsize", 1),
                      multisegment=(fe == "mp_multiseg"), **wargs)
        return w, (lambda: w.commit(**ckw))
    raise ValueError(fe)


def _fields(names, docfn, key, variant, kind):
    d = docfn(key, variant, kind)
    return dict((k, v) for k, v in d.items() if k in names)


def apply_op(w, op, config, names):
    """Applies one operation to the writer; ``names`` is the set of field
    names of the schema the writer works with (updated by rmfield)."""
    docfn = config.get("docfn") or default_doc
    keyfield = config.get("keyfield", "key")
    kind = op[0]
    if kind == "add":
        w.add_document(**_fields(names, docfn, op[1], op[2], "p"))
    elif kind == "update":
        w.update_document(**_fields(names, docfn, op[1], op[2], "p"))
    elif kind == "delete":
        w.delete_by_term(keyfield, op[1])
    elif kind == "group":
        (pk, pv), (ck, cv) = op[1], op[2]
        with w.group():
            w.add_document(**_fields(names, docfn, pk, pv, "p"))
            w.add_document(**_fields(names, docfn, ck, cv, "c"))
    elif kind == "rmfield":
        w.remove_field(op[1])
        names.discard(op[1])
    else:
        raise ValueError(op)


def apply_commit(ix, ops, merge, config=None):
    """One writer transaction: the ops, then commit with the merge choice.
    On an exception the writer is cancelled (best effort) and the exception
    propagates."""
    config = config or {}
    names = set(ix.schema.names())
    w, finish = open_writer(ix, merge, config)
    try:
        for op in ops:
            apply_op(w, op, config, names)
        finish()
    except BaseException:
        _abandon(w)
        raise


def _abandon(w):
    for target in (w, getattr(w, "writer", None)):
        if target is None:
            continue
        try:
            target.cancel()
        except Exception:
            pass
        lk = getattr(target, "writelock", None)
        if lk is not None:
            try:
                lk.release()
            except Exception:
                pass


def run_history(ops, splits, merges, config=None):
    """Executes the history on a fresh index and returns the Index."""
    config = config or {}
    if len(splits) != len(merges):
        raise ValueError("one merge choice per commit")
    if sum(splits) != len(ops):
        raise ValueError("splits must sum to len(ops)")
    ix = create_index(config)
    pos = 0
    for n, merge in zip(splits, merges):
        apply_commit(ix, ops[pos:pos + n], merge, config)
        pos += n
    return ix


def reference_index(ops, config=None):
    """Single-commit optimised build of the meaning of ``ops``: one plain
    writer on a RAM index with the default codec adds the surviving documents
    in creation order (an intact parent/child pair inside writer.group()),
    then commit(optimize=True).  Removed fields are absent from the schema."""
    config = config or {}
    from whoosh.filedb.filestore import RamStorage
    m = model(ops)
    schema = config.get("schema")
    schema = schema.copy() if schema is not None else default_schema()
    for f in m["removed"]:
        if f in schema:
            schema.remove(f)
    docfn = config.get("docfn") or default_doc
    ix = RamStorage().create_index(schema)
    w = ix.writer()
    names = set(schema.names())
    docs = m["docs"]
    i = 0
    while i < len(docs):
        d = docs[i]
        if d["child"] is not None and i + 1 < len(docs) and docs[i + 1]["parent"] == d["key"] \
                and docs[i + 1]["key"] == d["child"]:   # intact group
            c = docs[i + 1]
            with w.group():
                w.add_document(**_fields(names, docfn, d["key"], d["variant"], d["kind"]))
                w.add_document(**_fields(names, docfn, c["key"], c["variant"], c["kind"]))
            i += 2
        else:
            w.add_document(**_fields(names, docfn, d["key"], d["variant"], d["kind"]))
            i += 1
    w.commit(optimize=True)
    return ix


# -------------------------------------------------------------------------
# snapshots (depth-first exploration re-enters a state many times)

def snapshot(ix):
    from whoosh.filedb.filestore import RamStorage
    st = ix.storage
    if isinstance(st, RamStorage):
        return ("ram", dict(st.files), ix.indexname)
    dst = core.fresh_dir("snap")
    shutil.rmtree(dst)
    shutil.copytree(st.folder, dst)
    return ("file", dst, ix.indexname)


def restore(snap):
    """A fresh, independent Index holding the snapshot's content."""
    from whoosh.filedb.filestore import RamStorage, FileStorage
    kind, data, indexname = snap
    if kind == "ram":
        st = RamStorage()
        st.files = dict(data)
        return st.open_index(indexname)
    dst = core.fresh_dir("hix")
    shutil.rmtree(dst)
    shutil.copytree(data, dst)
    return FileStorage(dst).open_index(indexname)


def destroy(ix):
    st = ix.storage
    try:
        ix.close()
    except Exception:
        pass
    folder = getattr(st, "folder", None)
    if folder and os.path.isdir(folder):
        shutil.rmtree(folder, ignore_errors=True)


def segment_count(ix):
    return len(ix._segments())


# -------------------------------------------------------------------------
# isolation for the multiprocessing front-ends

def run_isolated(funcpath, arg, timeout=60.0, seed=0):
    """Calls ``module:function(arg)`` (arg and result JSON-able) in a fresh,
    non-daemonic interpreter with a hard timeout.  Returns the function's
    result, or {"isolated_error": "timeout" | text}.  MpWriter spawns
    processes, which pool workers (daemonic) may not do, and a hung
    sub-writer must not hang the check: on expiry the whole process group is
    killed."""
    env = dict(os.environ)
    env["PYTHONHASHSEED"] = "0"
    env["WHVERIF_PARENT"] = core.scratch_root()
    job = json.dumps({"func": funcpath, "arg": arg, "seed": seed})
    p = subprocess.Popen([sys.executable, "-B", "-c",
                          "import sys; sys.path.insert(0, %r); from mc import history; history._isolated_main()" % core.VERIF],
                         stdin=subprocess.PIPE, stdout=subprocess.PIPE, stderr=subprocess.PIPE,
                         env=env, cwd=core.VERIF, start_new_session=True)
    try:
        out, err = p.communicate(job.encode("utf8"), timeout=timeout)
    except subprocess.TimeoutExpired:
        try:
            os.killpg(p.pid, signal.SIGKILL)
        except OSError:
            pass
        try:
            p.communicate(timeout=5)
        except Exception:
            pass
        return {"isolated_error": "timeout"}
    finally:
        try:
            os.killpg(p.pid, signal.SIGKILL)   # stray sub-writers
        except OSError:
            pass
    marker = b"\n@@RESULT@@"
    if marker not in out:
        return {"isolated_error": "no result (rc=%s): %s" % (p.returncode, err.decode("utf8", "replace")[-1500:])}
    res = json.loads(out.split(marker, 1)[1].decode("utf8"))
    if isinstance(res, dict):
        res.setdefault("stderr_tail", err.decode("utf8", "replace")[-600:])
    return res


def _isolated_main():
    import importlib
    job = json.loads(sys.stdin.read())
    core.setup_process(job.get("seed", 0))
    modname, fn = job["func"].split(":")
    f = getattr(importlib.import_module(modname), fn)
    res = f(job["arg"])
    sys.stdout.write("\n@@RESULT@@" + json.dumps(res, default=repr))
    sys.stdout.flush()
    shutil.rmtree(core.scratch_root(), ignore_errors=True)
